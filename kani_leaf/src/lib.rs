//! Loop-free harnesses over the full isize domain: complete proofs (no unwinding bound involved).
#[cfg(kani)]
mod harnesses {
    use crustabri::sat::{Assignment, Literal, SolvingResult, Variable};

    /// cnf.rs: `Literal::from(l)` requires l != 0, ensures lit_val(res) == l   (lit_val = isize::from)
    #[kani::proof]
    fn literal_from_roundtrip() {
        let x: isize = kani::any();
        kani::assume(x != 0);
        let l = Literal::from(x);
        assert!(isize::from(l) == x);
    }

    /// cnf.rs: `negate` requires lit_val > isize::MIN, ensures lit_val(res) == -lit_val(self)
    #[kani::proof]
    fn literal_negate() {
        let x: isize = kani::any();
        kani::assume(x != 0 && x > isize::MIN);
        let l = Literal::from(x).negate();
        assert!(isize::from(l) == -x);
    }

    /// cnf.rs: `var` ensures var_val(res) == |lit_val(self)| > 0   (var_val = usize::from)
    #[kani::proof]
    fn literal_var() {
        let x: isize = kani::any();
        kani::assume(x != 0);
        let v: Variable = Literal::from(x).var();
        let u = usize::from(v);
        assert!(u == x.unsigned_abs());
        assert!(u > 0);
    }

    /// C17 (a): unwrap_model returns None on Unsatisfiable
    #[kani::proof]
    fn unwrap_model_unsat() {
        assert!(SolvingResult::Unsatisfiable.unwrap_model().is_none());
    }

    /// C17 (a): unwrap_model never returns on Unknown (the harness passes only if the call panics)
    #[kani::proof]
    #[kani::should_panic]
    fn unwrap_model_unknown_never_returns() {
        let _ = SolvingResult::Unknown.unwrap_model();
    }
    #[allow(dead_code)]
    fn _uses(_: Option<Assignment>) {}
}
