// ---- base: type-level environment shared by all units (hand-written; replaces the `use` lines, the
// anyhow error payload, panics and text payloads of the real crate -- see DESIGN.md §3.2 "dropped")
pub mod base {
use vstd::prelude::*;

/// `crate::utils::LabelType` without its `Debug + Display` bounds (display-only, dropped).
pub trait LabelType: Clone + Eq + std::hash::Hash + Sized {}
impl<T: Clone + Eq + std::hash::Hash + Sized> LabelType for T {}

/// stands for `anyhow::Error`: only *whether* a call fails is verified, never the message.
#[derive(Debug)]
pub struct Error;
pub type Result<T> = core::result::Result<T, Error>;
pub fn anyhow_error() -> Error { Error }

/// R6 (partial mode): a panic is a non-returning call; contracts then read "if the call returns".
#[verifier::external_body]
pub fn vx_diverge() -> ! { panic!() }

/// R6 (total mode): a panic site must be proved unreachable.
#[verifier::external_body]
pub fn vx_unreached() -> !
    requires false
{ panic!() }

/// text payloads: the value of a `format!` is never inspected.
#[verifier::external_body]
pub fn opaque_string() -> String { String::new() }

/// R10: a field whose type Verus cannot represent and that no extracted function touches.
#[verifier::external_body]
pub struct Opaque { _p: () }
}
