// ---- base: type-level environment shared by all units (hand-written; replaces the `use` lines, the
// anyhow error payload, panics and text payloads of the real crate -- see DESIGN.md §3.2 "dropped")
pub mod base {
use vstd::prelude::*;
use vstd::std_specs::cmp::*;

/// `crate::utils::LabelType` without its `Debug + Display` bounds (display-only, dropped).
pub trait LabelType: Clone + Eq + std::hash::Hash + Sized {}
impl<T: Clone + Eq + std::hash::Hash + Sized> LabelType for T {}

/// stands for `anyhow::Error`: only *whether* a call fails is verified, never the message.
#[derive(Debug)]
pub struct Error;
pub type Result<T> = core::result::Result<T, Error>;
pub fn anyhow_error() -> Error { Error }

/// R6 (partial mode): a panic is a non-returning call; contracts then read "if the call returns".
#[verifier::external_body]
pub fn vx_diverge() -> ! { panic!() }

/// R6 (total mode): a panic site must be proved unreachable.
#[verifier::external_body]
pub fn vx_unreached() -> !
    requires false
{ panic!() }

/// text payloads: the value of a `format!` is never inspected.
#[verifier::external_body]
pub fn opaque_string() -> String { String::new() }

// ---- specifications of std functions that vstd lacks. They are weak on purpose (true of the std functions, not complete):
// their only role is to let code that uses these functions be extracted and checked against its contract.
pub assume_specification<T: Ord>[ <[T]>::sort_unstable ](s: &mut [T])
    ensures final(s)@.len() == old(s)@.len(), final(s)@.to_multiset() == old(s)@.to_multiset();
pub assume_specification<T: PartialEq, A: core::alloc::Allocator>[ Vec::<T, A>::dedup ](v: &mut Vec<T, A>)
    ensures final(v)@.len() <= old(v)@.len();
pub assume_specification<T: Copy>[ Option::<&T>::copied ](o: Option<&T>) -> (r: Option<T>)
    ensures r == (match o { Some(x) => Some(*x), None => None });

pub assume_specification<T: Default>[ core::mem::take::<T> ](dest: &mut T) -> (r: T)
    ensures r == *old(dest);
pub assume_specification<T>[ core::mem::replace::<T> ](dest: &mut T, src: T) -> (r: T)
    ensures r == *old(dest), *final(dest) == src;
pub assume_specification<T, U, F: FnOnce(T) -> U>[ Option::<T>::map_or ](o: Option<T>, default: U, f: F) -> (r: U)
    requires o is Some ==> call_requires(f, (o.unwrap(),)),
    ensures o is None ==> r == default, o is Some ==> call_ensures(f, (o.unwrap(),), r);
pub assume_specification<T, E>[ core::result::Result::<T, E>::unwrap_or ](r: core::result::Result<T, E>, default: T) -> (res: T)
    ensures res == (match r { Ok(t) => t, Err(_) => default });
pub assume_specification<T: PartialEq>[ <[T]>::contains ](s: &[T], x: &T) -> (r: bool)
    ensures T::obeys_eq_spec() ==> (r <==> exists|i: int| 0 <= i < s@.len() && (#[trigger] s@[i]).eq_spec(x));
pub assume_specification<T, F: FnOnce(T) -> bool>[ Option::<T>::is_some_and ](o: Option<T>, f: F) -> (r: bool)
    requires o is Some ==> call_requires(f, (o.unwrap(),)),
    ensures o is None ==> !r, o is Some ==> call_ensures(f, (o.unwrap(),), r);
pub assume_specification<T: Clone>[ <[T]>::to_vec ](s: &[T]) -> (r: Vec<T>)
    ensures r@.len() == s@.len(), forall|i: int| 0 <= i < s@.len() ==> cloned::<T>(#[trigger] s@[i], r@[i]);
pub assume_specification[ isize::unsigned_abs ](x: isize) -> (r: usize)
    ensures r as int == (if x >= 0 { x as int } else { -(x as int) });

// ---- ASSUMED text primitives (C13, C16/C17): uninterpreted readings of `str::parse`, `str::starts_with`, and of the
// splitting of a text into words. Nothing is known about them beyond their being functions of the characters.
pub uninterp spec fn parse_spec<F>(s: Seq<char>) -> Option<F>;

#[verifier::external_trait_specification]
pub trait ExFromStr: Sized {
    type ExternalTraitSpecificationFor: core::str::FromStr;
    type Err;
}
#[verifier::external_type_specification]
#[verifier::external_body]
pub struct ExParseIntError(core::num::ParseIntError);

pub assume_specification<F: core::str::FromStr>[ str::parse::<F> ](s: &str) -> (r: core::result::Result<F, <F as core::str::FromStr>::Err>)
    ensures r.is_ok() == parse_spec::<F>(s@).is_some(), r matches Ok(v) ==> parse_spec::<F>(s@) == Some(v);

#[verifier::external_trait_specification]
pub trait ExPattern: Sized {
    type ExternalTraitSpecificationFor: core::str::pattern::Pattern;
}
/// (assumed, uninterpreted) whether a string starts with a pattern
pub uninterp spec fn starts_with_spec<P>(s: Seq<char>, p: P) -> bool;
pub assume_specification<P: core::str::pattern::Pattern>[ str::starts_with::<P> ](s: &str, p: P) -> (r: bool)
    ensures r == starts_with_spec::<P>(s@, p);

/// (assumed, uninterpreted) the whitespace-separated words of a text
pub uninterp spec fn words_spec(s: Seq<char>) -> Seq<Seq<char>>;
#[verifier::external_body]
pub fn vx_words<'a>(s: &'a String) -> (r: Vec<&'a str>)
    ensures r@.len() == words_spec(s@).len(), forall|k: int| 0 <= k < r@.len() ==> (#[trigger] r@[k])@ == words_spec(s@)[k],
{ unimplemented!() }

/// R3h: verified stand-ins for `slice.iter().any(f)` and `slice.contains(x)` (same evaluation order and short-circuiting as
/// the std functions; the specification speaks about the closure's own contract)
pub fn vx_any<T, F: Fn(&T) -> bool>(s: &[T], f: F) -> (r: bool)
    requires forall|i: int| 0 <= i < s@.len() ==> call_requires(f, (&#[trigger] s@[i],)),
    ensures
        r ==> exists|i: int| 0 <= i < s@.len() && call_ensures(f, (&#[trigger] s@[i],), true),
        !r ==> forall|i: int| 0 <= i < s@.len() ==> call_ensures(f, (&#[trigger] s@[i],), false),
{
    let mut r = false;
    for e in it: s.iter()
        invariant
            forall|i: int| 0 <= i < s@.len() ==> call_requires(f, (&#[trigger] s@[i],)),
            r ==> exists|i: int| 0 <= i < s@.len() && call_ensures(f, (&#[trigger] s@[i],), true),
            !r ==> forall|i: int| 0 <= i < it.index@ ==> call_ensures(f, (&#[trigger] s@[i],), false),
    {
        if !r { if f(e) { r = true; } }
    }
    r
}

pub fn vx_contains<T: PartialEq>(v: &[T], x: &T) -> (r: bool)
    requires T::obeys_eq_spec(),
    ensures r <==> exists|i: int| 0 <= i < v@.len() && (#[trigger] v@[i]).eq_spec(x),
{
    let mut r = false;
    for e in it: v.iter()
        invariant T::obeys_eq_spec(), r <==> exists|i: int| 0 <= i < it.index@ && (#[trigger] v@[i]).eq_spec(x),
    {
        if !r { if *e == *x { r = true; } }
    }
    r
}

/// R10: a field whose type Verus cannot represent and that no extracted function touches.
#[verifier::external_body]
pub struct Opaque { _p: () }
}
