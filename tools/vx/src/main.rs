//! vx — mechanical extractor: real crustabri source items -> Verus-checkable text.
//!
//! Reads a plan (JSON) naming items of /repo/src, parses the real files with `syn`, and prints for
//! each item its *source text* with (a) marker comments at the places where contracts are woven
//! and (b) the named, generic rewriting rules R1..R12 of DESIGN.md §3.2 applied as text edits at
//! AST-located byte ranges. Everything that is not touched by a rule is the byte-for-byte text of
//! the repository. Exit 2 (with a message) on anything the rules do not cover.
//!
//! usage: vx <plan.json> <out.json>

use proc_macro2::Span;
use serde_json::{json, Value};
use std::collections::{BTreeMap, BTreeSet, HashMap};
use syn::spanned::Spanned;
use syn::visit::{self, Visit};
use syn::*;

fn die(msg: &str) -> ! {
    eprintln!("vx: unsupported construct: {}", msg);
    std::process::exit(2)
}

fn rng(s: Span) -> (usize, usize) {
    let r = s.byte_range();
    (r.start, r.end)
}

#[derive(Clone)]
struct Edit {
    start: usize,
    end: usize,
    text: String,
}

fn apply_edits(src: &str, start: usize, end: usize, mut edits: Vec<Edit>) -> String {
    edits.sort_by(|a, b| (a.start, a.end).cmp(&(b.start, b.end)));
    let mut out = String::new();
    let mut pos = start;
    for e in edits {
        if e.start < pos {
            die(&format!(
                "internal: overlapping edits at byte {} ({:?})",
                e.start, e.text
            ));
        }
        out.push_str(&src[pos..e.start]);
        out.push_str(&e.text);
        pos = e.end;
    }
    out.push_str(&src[pos..end]);
    out
}

/// the block body of the first closure expression found inside `e` (arguments of calls, `Box::new(..)`, parentheses)
fn first_closure_block(e: &Expr) -> Option<&Block> {
    match e {
        Expr::Closure(c) => match &*c.body { Expr::Block(b) => Some(&b.block), _ => None },
        Expr::Paren(p) => first_closure_block(&p.expr),
        Expr::Call(c) => c.args.iter().find_map(|a| first_closure_block(a)),
        Expr::MethodCall(m) => first_closure_block(&m.receiver).or_else(|| m.args.iter().find_map(|a| first_closure_block(a))),
        _ => None,
    }
}

/// `Rc::new(RefCell::new(E))` => E
fn rc_refcell_new_arg(e: &Expr) -> Option<&Expr> {
    fn call_of<'x>(e: &'x Expr, ty: &str) -> Option<&'x Expr> {
        if let Expr::Call(c) = e {
            if let Expr::Path(p) = &*c.func {
                let segs: Vec<String> = p.path.segments.iter().map(|s| s.ident.to_string()).collect();
                if segs.len() >= 2 && segs[segs.len() - 2] == ty && segs[segs.len() - 1] == "new" && c.args.len() == 1 {
                    return Some(&c.args[0]);
                }
            }
        }
        None
    }
    call_of(call_of(e, "Rc")?, "RefCell")
}

/// `self` => `__self` everywhere except inside marker comments `/*@ .. @*/`
fn rename_self_outside_markers(t: &str) -> String {
    let b = t.as_bytes();
    let mut out = String::with_capacity(t.len() + 64);
    let mut i = 0;
    while i < b.len() {
        if t[i..].starts_with("/*@") {
            let e = t[i..].find("@*/").map(|p| i + p + 3).unwrap_or(b.len());
            out.push_str(&t[i..e]);
            i = e;
            continue;
        }
        if t[i..].starts_with("self") {
            let before_ok = i == 0 || !(b[i - 1].is_ascii_alphanumeric() || b[i - 1] == b'_');
            let after_ok = i + 4 >= b.len() || !(b[i + 4].is_ascii_alphanumeric() || b[i + 4] == b'_');
            if before_ok && after_ok {
                out.push_str("__self");
                i += 4;
                continue;
            }
        }
        let ch = t[i..].chars().next().unwrap();
        out.push(ch);
        i += ch.len_utf8();
    }
    out
}

/// `Box::<T>::default` => Some("T")
fn box_default_type(f: &Expr) -> Option<String> {
    if let Expr::Path(p) = f {
        let segs: Vec<&syn::PathSegment> = p.path.segments.iter().collect();
        if segs.len() == 2 && segs[0].ident == "Box" && segs[1].ident == "default" {
            if let syn::PathArguments::AngleBracketed(ab) = &segs[0].arguments {
                if ab.args.len() == 1 {
                    if let syn::GenericArgument::Type(Type::Path(tp)) = &ab.args[0] {
                        return tp.path.get_ident().map(|i| i.to_string());
                    }
                }
            }
        }
    }
    None
}

fn norm(s: &str) -> String {
    let mut out = String::new();
    let mut last_space = false;
    for c in s.chars() {
        if c.is_whitespace() {
            if !last_space {
                out.push(' ');
            }
            last_space = true;
        } else {
            out.push(c);
            last_space = false;
        }
    }
    let out = out.trim().replace("*/", "* /").replace('@', "(at)");
    out.chars().take(90).collect()
}

/// Global configuration of the plan (shared by all items).
struct Cfg {
    /// method names that denote eager accessors (functions returning `impl Iterator` turned into Vec-returning ones)
    eager_methods: BTreeSet<String>,
    /// receiver text patterns R such that `R.iter()` is a call to an eager accessor named `iter`
    eager_iter_receivers: Vec<String>,
}

#[derive(Default, Clone)]
struct FnCfg {
    partial: bool,           // R6 mode
    into_as: Option<String>, // R12
    slice_before: Option<String>, // R11
    slice_from: Option<String>,   // R11: statements before the anchor are dropped as well
    /// R11: the fragment is taken from the body of the (loop / if) statement of the function body that starts with this text
    slice_block: Option<String>,
    frag_name: Option<String>,    // R11: the kept statements become a function of their declared free variables
    frag_params: Option<String>,
    frag_ret: Option<String>,
    frag_generics: Option<String>,
    ret_name: String,
    keep_name: bool,
    no_eager_iter: bool,
    contains_as_loop: bool,
    /// R3h: `X.iter().any(c)` / `V.contains(&x)` become calls of the verified helpers vx_any / vx_contains
    helpers: bool,
    vec_receivers: Vec<String>,
    /// R22: names of local closures that are inlined at their call sites
    inline_closures: Vec<String>,
    /// R23: String-typed locals whose comparisons with string literals go through `.as_str()`
    string_vars: Vec<String>,
    /// per item: more receivers R such that `R.iter()` is the eager accessor `iter` of the store
    eager_receivers: Vec<String>,
    /// R21: `write!` / `writeln!` / `.flush()` become calls of vx_write<n> / vx_flush (ghost log of the text events)
    text_out: bool,
    /// R16: `for P in E` where the text of E starts with one of these prefixes iterates a user-defined iterator:
    /// the loop becomes `loop { match it.next() { None => break, Some(P) => body } }` (the desugaring of `for`)
    custom_iters: Vec<String>,
    /// R17: `X.as_mut()` / `X.as_ref()` on these Box-typed locals becomes the reborrow `&mut *X` / `&*X`
    box_receivers: Vec<String>,
    /// R25: `X.borrow_mut()` / `X.borrow()` (optionally followed by `.as_mut()` / `.as_ref()`) on these `Rc<RefCell<Box<dyn ..>>>`
    /// handles becomes the reborrow `(&mut *X)` / `(&*X)`: the item is read with X bound to the cell's content, held
    /// exclusively while the item runs
    shared_cells: Vec<String>,
    /// R25: parameters / struct fields that are handles to a shared cell get the type of the cell's content (`name:Type`)
    param_types: Vec<(String, String)>,
    field_types: Vec<(String, String)>,
    /// R10: in a struct literal, `F: None` for an opaque field F becomes `F: vx_opaque_none()`
    opaque_inits: Vec<String>,
    /// R18: calls of opaque closure fields also get `(&mut *self.<this field>)`: the shared cell the closure captured
    opaque_call_shared: Option<String>,
    /// R18: `(self.F)(args)` for an opaque closure-typed field F becomes `vx_call_F(&self.F, args)`, a function whose
    /// contract is stated (assumed) in the unit
    opaque_calls: Vec<String>,
}

struct R<'a> {
    unit_fn: bool,
    /// span of the function body block (slicing applies to its statements only)
    body_block: Option<(usize, usize)>,
    /// R15: spans of the blocks that are bodies of (generated or real) `for` loops
    loop_bodies: BTreeSet<(usize, usize)>,
    /// id reserved for the first loop of the pipeline being generated (ties result temporaries to their loop)
    pending_loop: Option<usize>,
    /// loop id -> signature (normalized source text of the iterated expression / loop condition)
    loop_sigs: HashMap<usize, String>,
    baseline_loops: Vec<String>,
    /// R13: bind the tail expression of the function body to `__ret` (hook for end-of-body proof)
    bind_tail: Option<(usize, usize)>,
    tail_bound: bool,
    src: &'a str,
    cfg: &'a Cfg,
    fc: FnCfg,
    next_id: usize,
    rules: BTreeSet<String>,
    named_closures: HashMap<String, ExprClosure>,
    /// R22: closures to inline at their direct call sites
    inline_closures: HashMap<String, ExprClosure>,
    in_foreach: usize,
}

#[derive(Clone)]
enum Stage {
    Map(ExprClosure),
    Filter(ExprClosure),
    FilterMap(ExprClosure),
    MapWhile(ExprClosure),
    TakeWhile(ExprClosure),
    Enumerate,
    /// `.skip(n)`: the first n elements are passed over
    Skip(Expr),
    /// `.copied()` / `.cloned()`: the element by value
    Copied,
    Cloned,
}

#[derive(Clone)]
enum SourceKind {
    /// `X.iter()` on a Vec / slice: yields references
    SliceIter,
    /// `X.into_iter()` or a Vec by value
    IntoIter,
    /// a range expression
    Range,
    /// a call to an eager accessor (returns a Vec by value)
    Eager,
    /// R9: `X.cart_prod()` of the external crate `permutator` (assumed contract, see enc_exp)
    CartProd,
    /// R24: `S.split_whitespace()` / `S.split_ascii_whitespace()`: the words of a text, through the assumed `vx_words`
    Words,
}

#[derive(Clone)]
struct Source {
    kind: SourceKind,
    expr: Expr,
}

struct Pipeline {
    sources: Vec<Source>, // more than one: chain
    stages: Vec<Stage>,
}

enum Sink<'c> {
    ForEach(&'c ExprClosure),
    /// `try_for_each(c)`: the closure is called until it first returns an error, which is the result
    TryForEach(&'c ExprClosure),
    Collect,
    Any(&'c ExprClosure),
    All(&'c ExprClosure),
    Position(&'c ExprClosure),
    Count,
    First,
    Max,
    Min,
}

impl<'a> R<'a> {
    fn text(&self, s: Span) -> &'a str {
        let (a, b) = rng(s);
        &self.src[a..b]
    }

    fn fresh(&mut self) -> usize {
        let i = self.next_id;
        self.next_id += 1;
        i
    }

    fn rule(&mut self, r: &str) {
        self.rules.insert(r.to_string());
    }

    // ---------------------------------------------------------------- generic rendering

    fn render_expr(&mut self, e: &Expr) -> String {
        let (s, t) = rng(e.span());
        let mut v = V {
            r: self,
            edits: vec![],
        };
        v.visit_expr(e);
        let edits = v.edits;
        apply_edits(self.src, s, t, edits)
    }

    fn render_pat(&mut self, p: &Pat) -> String {
        self.text(p.span()).to_string()
    }

    /// renders the statements of a block, without the braces
    fn render_block_inner(&mut self, b: &Block) -> String {
        let (s, t) = rng(b.span());
        let mut v = V {
            r: self,
            edits: vec![],
        };
        v.block_stmts(b);
        let edits = v.edits;
        // strip the braces
        let full = apply_edits(self.src, s, t, edits);
        let full = full.trim();
        if !(full.starts_with('{') && full.ends_with('}')) {
            die("internal: block without braces");
        }
        full[1..full.len() - 1].to_string()
    }

    /// renders a closure body as a sequence of statements (no outer braces); value-producing
    /// bodies are returned as an expression text in the second component
    fn closure_body_stmts(&mut self, c: &ExprClosure) -> String {
        match &*c.body {
            Expr::Block(b) if b.label.is_none() && b.attrs.is_empty() => {
                self.loop_bodies.insert(rng(b.block.span()));
                self.render_block_inner(&b.block)
            }
            e => {
                let s = self.render_expr(e);
                format!("{};", s)
            }
        }
    }

    fn closure_body_expr(&mut self, c: &ExprClosure) -> String {
        self.render_expr(&c.body)
    }

    fn closure_single_pat(&mut self, c: &ExprClosure) -> String {
        if c.inputs.len() != 1 {
            die("closure with other than one parameter in an iterator pipeline");
        }
        let p = &c.inputs[0];
        self.text(p.span()).to_string()
    }

    // ---------------------------------------------------------------- pipelines (R1, R2, R3)

    fn is_eager_call(&self, e: &Expr) -> bool {
        if let Expr::MethodCall(mc) = e {
            let name = mc.method.to_string();
            if self.cfg.eager_methods.contains(&name) {
                return true;
            }
            if name == "iter" && mc.args.is_empty() && !self.fc.no_eager_iter {
                let recv = norm(self.text(mc.receiver.span()));
                return self
                    .cfg
                    .eager_iter_receivers
                    .iter()
                    .chain(self.fc.eager_receivers.iter())
                    .any(|p| recv.ends_with(p.as_str()));
            }
        }
        false
    }

    fn parse_source(&self, e: &Expr) -> Option<Vec<Source>> {
        let e = strip_paren(e);
        if self.is_eager_call(e) {
            return Some(vec![Source {
                kind: SourceKind::Eager,
                expr: e.clone(),
            }]);
        }
        match e {
            Expr::Range(_) => Some(vec![Source {
                kind: SourceKind::Range,
                expr: e.clone(),
            }]),
            Expr::MethodCall(mc) => {
                let name = mc.method.to_string();
                if (name == "split_whitespace" || name == "split_ascii_whitespace") && mc.args.is_empty() {
                    return Some(vec![Source {
                        kind: SourceKind::Words,
                        expr: (*mc.receiver).clone(),
                    }]);
                }
                if name == "cart_prod" && mc.args.is_empty() {
                    Some(vec![Source {
                        kind: SourceKind::CartProd,
                        expr: (*mc.receiver).clone(),
                    }])
                } else if name == "iter" && mc.args.is_empty() {
                    Some(vec![Source {
                        kind: SourceKind::SliceIter,
                        expr: (*mc.receiver).clone(),
                    }])
                } else if name == "into_iter" && mc.args.is_empty() {
                    Some(vec![Source {
                        kind: SourceKind::IntoIter,
                        expr: (*mc.receiver).clone(),
                    }])
                } else if name == "chain" && mc.args.len() == 1 {
                    let mut a = self.parse_source(&mc.receiver)?;
                    let b = self.parse_source(&mc.args[0])?;
                    a.extend(b);
                    Some(a)
                } else {
                    None
                }
            }
            _ => None,
        }
    }

    fn parse_pipeline(&self, e: &Expr) -> Option<Pipeline> {
        let mut stages = vec![];
        let mut cur = strip_paren(e);
        loop {
            if let Some(sources) = self.parse_source(cur) {
                stages.reverse();
                return Some(Pipeline { sources, stages });
            }
            match cur {
                Expr::MethodCall(mc) => {
                    let name = mc.method.to_string();
                    let st = match (name.as_str(), mc.args.len()) {
                        ("map", 1) => Stage::Map(closure_of(&mc.args[0])?),
                        ("filter", 1) => Stage::Filter(closure_of(&mc.args[0])?),
                        ("filter_map", 1) => Stage::FilterMap(closure_of(&mc.args[0])?),
                        ("map_while", 1) => Stage::MapWhile(closure_of(&mc.args[0])?),
                        ("take_while", 1) => Stage::TakeWhile(closure_of(&mc.args[0])?),
                        ("enumerate", 0) => Stage::Enumerate,
                        ("skip", 1) => Stage::Skip(mc.args[0].clone()),
                        ("copied", 0) => Stage::Copied,
                        ("cloned", 0) => Stage::Cloned,
                        _ => return None,
                    };
                    stages.push(st);
                    cur = strip_paren(&mc.receiver);
                }
                _ => return None,
            }
        }
    }

    /// Generates the loops of a pipeline. `result_var` is the name used by the sink.
    fn gen_pipeline(&mut self, p: &Pipeline, sink: &Sink, rv: &str) -> String {
        let mut out = String::new();
        let needs_counter = p.stages.iter().any(|s| matches!(s, Stage::Enumerate));
        let k0 = match self.pending_loop.take() {
            Some(k) => k,
            None => self.fresh(),
        };
        let cnt = format!("__n{}", k0);
        if needs_counter {
            out.push_str(&format!("let mut {}: usize = 0;\n", cnt));
        }
        let pos_cnt = format!("__p{}", k0);
        if let Sink::Position(_) = sink {
            out.push_str(&format!("let mut {}: usize = 0;\n", pos_cnt));
        }
        for (si, s) in p.sources.iter().enumerate() {
            let k = if si == 0 { k0 } else { self.fresh() };
            let mut mcount = 0usize;
            let sink_name = match sink {
                Sink::ForEach(_) => "for_each",
                Sink::TryForEach(_) => "try_for_each",
                Sink::Collect => "collect",
                Sink::Any(_) => "any",
                Sink::All(_) => "all",
                Sink::Position(_) => "position",
                Sink::Count => "count",
                Sink::First => "next",
                Sink::Max => "max",
                Sink::Min => "min",
            };
            let sig = format!("{}:{}", sink_name, norm(self.text(s.expr.span())));
            self.loop_sigs.insert(k, sig);
            let it = format!("__it{}", k);
            let e = format!("__e{}", k);
            let src_text = self.render_expr(&s.expr);
            let head = match s.kind {
                SourceKind::SliceIter => {
                    if is_place(&s.expr) {
                        format!("({}).iter()", src_text)
                    } else {
                        // a temporary must outlive the loop (Rust's own `for` extends it; Verus' desugaring does not)
                        let sv = format!("__s{}", k);
                        out.push_str(&format!("let {} = {};\n", sv, src_text));
                        format!("({}).iter()", sv)
                    }
                }
                SourceKind::IntoIter => src_text.clone(),
                SourceKind::Range => src_text.clone(),
                SourceKind::Eager => {
                    let sv = format!("__s{}", k);
                    out.push_str(&format!("let {} = {};\n", sv, src_text));
                    sv
                }
                SourceKind::Words => {
                    self.rule("R24:words->eager(assumed)");
                    let sv = format!("__s{}", k);
                    out.push_str(&format!("let {} = vx_words(&({}));\n", sv, src_text));
                    sv
                }
                SourceKind::CartProd => {
                    self.rule("R9:cart_prod->eager(assumed)");
                    let sv = format!("__s{}", k);
                    out.push_str(&format!("let {} = cart_prod__eager(&({}));\n", sv, src_text));
                    sv
                }
            };
            let mut body = String::new();
            let mut cur = e.clone();
            let mut closers = 0;
            for st in &p.stages {
                match st {
                    Stage::Map(c) => {
                        let pat = self.closure_single_pat(c);
                        let b = self.closure_body_expr(c);
                        let nx = { mcount += 1; format!("__m{}x{}", k, mcount - 1) };
                        body.push_str(&format!("let {} = {};\nlet {} = {};\n", pat, cur, nx, b));
                        cur = nx;
                    }
                    Stage::Filter(c) => {
                        let pat = self.closure_single_pat(c);
                        let b = self.closure_body_expr(c);
                        body.push_str(&format!(
                            "if {{ let {} = &{}; {} }} {{\n",
                            pat, cur, b
                        ));
                        closers += 1;
                    }
                    Stage::FilterMap(c) => {
                        let pat = self.closure_single_pat(c);
                        let b = self.closure_body_expr(c);
                        let nx = { mcount += 1; format!("__m{}x{}", k, mcount - 1) };
                        body.push_str(&format!(
                            "let {} = {};\nif let Some({}) = {} {{\n",
                            pat, cur, nx, b
                        ));
                        cur = nx;
                        closers += 1;
                    }
                    Stage::MapWhile(c) => {
                        if p.sources.len() != 1 {
                            die("map_while after chain");
                        }
                        let pat = self.closure_single_pat(c);
                        let b = self.closure_body_expr(c);
                        let nx = { mcount += 1; format!("__m{}x{}", k, mcount - 1) };
                        body.push_str(&format!(
                            "let {} = {};\nlet {} = match {} {{ Some(__w) => __w, None => break }};\n",
                            pat, cur, nx, b
                        ));
                        cur = nx;
                    }
                    Stage::TakeWhile(c) => {
                        if p.sources.len() != 1 {
                            die("take_while after chain");
                        }
                        let pat = self.closure_single_pat(c);
                        let b = self.closure_body_expr(c);
                        body.push_str(&format!(
                            "if !{{ let {} = &{}; {} }} {{ break; }}\n",
                            pat, cur, b
                        ));
                    }
                    Stage::Skip(n) => {
                        let nt = self.render_expr(n);
                        let cv = format!("__c{}", k);
                        out.push_str(&format!("let mut {}: usize = 0;\n", cv));
                        body.push_str(&format!("if {} < {} {{ {} += 1; }} else {{\n", cv, nt, cv));
                        closers += 1;
                    }
                    Stage::Copied | Stage::Cloned => {
                        let nx = { mcount += 1; format!("__m{}x{}", k, mcount - 1) };
                        if matches!(st, Stage::Copied) {
                            body.push_str(&format!("let {} = *{};\n", nx, cur));
                        } else {
                            body.push_str(&format!("let {} = {}.clone();\n", nx, cur));
                        }
                        cur = nx;
                    }
                    Stage::Enumerate => {
                        let nx = { mcount += 1; format!("__m{}x{}", k, mcount - 1) };
                        body.push_str(&format!(
                            "let {} = ({}, {});\n{} += 1;\n",
                            nx, cnt, cur, cnt
                        ));
                        cur = nx;
                    }
                }
            }
            match sink {
                Sink::ForEach(c) => {
                    let pat = self.closure_single_pat(c);
                    self.in_foreach += 1;
                    let b = self.closure_body_stmts(c);
                    self.in_foreach -= 1;
                    body.push_str(&format!("let {} = {};\n{}\n", pat, cur, b));
                }
                Sink::TryForEach(c) => {
                    let pat = self.closure_single_pat(c);
                    let b = self.closure_body_expr(c);
                    body.push_str(&format!("if {}.is_ok() {{ let {} = {}; {} = {}; }}\n", rv, pat, cur, rv, b));
                }
                Sink::Collect => body.push_str(&format!("{}.push({});\n", rv, cur)),
                Sink::Any(c) => {
                    let pat = self.closure_single_pat(c);
                    let b = self.closure_body_expr(c);
                    body.push_str(&format!(
                        "if !{} {{ let {} = {}; if {} {{ {} = true; }} }}\n",
                        rv, pat, cur, b, rv
                    ));
                }
                Sink::All(c) => {
                    let pat = self.closure_single_pat(c);
                    let b = self.closure_body_expr(c);
                    body.push_str(&format!(
                        "if {} {{ let {} = {}; if !({}) {{ {} = false; }} }}\n",
                        rv, pat, cur, b, rv
                    ));
                }
                Sink::Position(c) => {
                    let pat = self.closure_single_pat(c);
                    let b = self.closure_body_expr(c);
                    body.push_str(&format!(
                        "if {}.is_none() {{ let {} = {}; if {} {{ {} = Some({}); }} else {{ {} += 1; }} }}\n",
                        rv, pat, cur, b, rv, pos_cnt, pos_cnt
                    ));
                }
                Sink::Count => body.push_str(&format!("{} += 1;\n", rv)),
                Sink::First => body.push_str(&format!("if {}.is_none() {{ {} = Some({}); }}\n", rv, rv, cur)),
                Sink::Max => body.push_str(&format!("{rv} = match {rv} {{ None => Some({c}), Some(__b) => if {c} >= __b {{ Some({c}) }} else {{ Some(__b) }} }};\n", rv = rv, c = cur)),
                Sink::Min => body.push_str(&format!("{rv} = match {rv} {{ None => Some({c}), Some(__b) => if {c} < __b {{ Some({c}) }} else {{ Some(__b) }} }};\n", rv = rv, c = cur)),
            }
            for _ in 0..closers {
                body.push_str("}\n");
            }
            out.push_str(&format!(
                "/*@PRE#{k}@*/ for {e} in {it}: {head} /*@INV#{k}@*/ {{ /*@TOP#{k}@*/\n{body}/*@BOT#{k}@*/ }} /*@POST#{k}@*/\n",
                k = k,
                e = e,
                it = it,
                head = head,
                body = body
            ));
        }
        out
    }

    fn try_rewrite_methodcall(&mut self, mc: &ExprMethodCall) -> Option<String> {
        let name = mc.method.to_string();
        // error payloads: `.context(..)` / `.with_context(..)` are identity on the Ok/Err shape
        if (name == "context" || name == "with_context") && mc.args.len() == 1 {
            self.rule("drop:error-context");
            return Some(self.render_expr(&mc.receiver));
        }
        // capacity hints
        if name == "shrink_to_fit" && mc.args.is_empty() {
            self.rule("drop:capacity-hint");
            return Some("()".to_string());
        }
        // R17: Box::as_mut / Box::as_ref on a declared Box-typed local are reborrows
        if (name == "as_mut" || name == "as_ref") && mc.args.is_empty() {
            if let Expr::Field(_) = strip_paren(&mc.receiver) {
                // a Box-typed field named in full (`self.f`)
                let txt = norm(self.text(mc.receiver.span()));
                if self.fc.box_receivers.iter().any(|n| *n == txt) {
                    self.rule("R17:box-reborrow");
                    return Some(if name == "as_mut" { format!("(&mut *{})", txt) } else { format!("(&*{})", txt) });
                }
            }
            if let Expr::Path(pa) = strip_paren(&mc.receiver) {
                if let Some(id) = pa.path.get_ident() {
                    if self.fc.box_receivers.iter().any(|n| id == n) {
                        self.rule("R17:box-reborrow");
                        return Some(if name == "as_mut" { format!("(&mut *{})", id) } else { format!("(&*{})", id) });
                    }
                }
            }
        }
        // R25: a shared cell is read as its content, borrowed for the duration of the expression
        if !self.fc.shared_cells.is_empty() && mc.args.is_empty() && (name == "borrow_mut" || name == "borrow" || name == "as_mut" || name == "as_ref") {
            let mut inner: &Expr = strip_paren(&mc.receiver);
            let mut mutable = name == "borrow_mut" || name == "as_mut";
            let mut saw_borrow = name == "borrow_mut" || name == "borrow";
            if !saw_borrow {
                if let Expr::MethodCall(m2) = inner {
                    if m2.args.is_empty() && (m2.method == "borrow_mut" || m2.method == "borrow") {
                        mutable = m2.method == "borrow_mut";
                        saw_borrow = true;
                        inner = strip_paren(&m2.receiver);
                    }
                }
            }
            if saw_borrow {
                let txt = norm(self.text(inner.span()));
                if self.fc.shared_cells.iter().any(|n| *n == txt) {
                    self.rule("R25:shared-cell-as-content");
                    let r = self.render_expr(inner);
                    return Some(if mutable { format!("(&mut *{})", r) } else { format!("(&*{})", r) });
                }
            }
        }
        // R12 into -> From
        if name == "into" && mc.args.is_empty() {
            if let Some(t) = self.fc.into_as.clone() {
                self.rule("R12:into->from");
                let r = self.render_expr(&mc.receiver);
                return Some(format!("{}::from({})", t, r));
            }
        }
        match (name.as_str(), mc.args.len()) {
            ("for_each", 1) => {
                let p = self.parse_pipeline(&mc.receiver)?;
                let cl = match closure_of(&mc.args[0]) {
                    Some(c) => c,
                    None => {
                        // R4: a named closure bound by a preceding `let`
                        if let Expr::Path(pa) = &mc.args[0] {
                            let id = pa.path.get_ident()?.to_string();
                            let c = self.named_closures.get(&id)?.clone();
                            self.rule("R4:named-closure-inlining");
                            c
                        } else {
                            return None;
                        }
                    }
                };
                self.rule("R1:for_each->for");
                if p.stages.len() > 0 || p.sources.len() > 1 {
                    self.rule("R2b:pipeline-desugaring");
                }
                let body = self.gen_pipeline(&p, &Sink::ForEach(&cl), "");
                Some(format!("{{\n{}}}", body))
            }
            ("try_for_each", 1) => {
                let p = self.parse_pipeline(&mc.receiver)?;
                let cl = closure_of(&mc.args[0])?;
                self.rule("R3:consumer-desugaring");
                let lid = self.fresh(); self.pending_loop = Some(lid); let rv = format!("__r{}", lid);
                let body = self.gen_pipeline(&p, &Sink::TryForEach(&cl), &rv);
                Some(format!("{{ let mut {rv}: core::result::Result<(), _> = Ok(());\n{body}{rv} }}", rv = rv, body = body))
            }
            ("flush", 0) if self.fc.text_out => {
                // R21: text output goes through named functions that keep a ghost log of what was written
                self.rule("R21:text-output-events");
                let r = self.render_expr(&mc.receiver);
                Some(format!("vx_flush({})", r))
            }
            ("collect", 0) => {
                // R2c: `L.chain(R).collect()` where L has its own stages: the elements of L, then those of R
                let mut tail: Option<Expr> = None;
                let mut head_expr: Expr = (*mc.receiver).clone();
                if self.parse_pipeline(&mc.receiver).is_none() {
                    if let Expr::MethodCall(ch) = strip_paren(&mc.receiver) {
                        if ch.method == "chain" && ch.args.len() == 1 {
                            head_expr = (*ch.receiver).clone();
                            tail = Some(ch.args[0].clone());
                        }
                    }
                }
                let p = self.parse_pipeline(&head_expr)?;
                let tail_text = match &tail {
                    None => None,
                    Some(t) => {
                        // only `std::iter::once(E)` and plain pipelines are understood on the right of the chain
                        let mut once: Option<&Expr> = None;
                        if let Expr::Call(c) = strip_paren(t) {
                            if let Expr::Path(pp) = strip_paren(&c.func) {
                                if pp.path.segments.last().map(|s| s.ident == "once").unwrap_or(false) && c.args.len() == 1 {
                                    once = Some(&c.args[0]);
                                }
                            }
                        }
                        match once {
                            Some(e) => Some((true, e.clone())),
                            None => {
                                self.parse_pipeline(t)?;
                                Some((false, t.clone()))
                            }
                        }
                    }
                };
                self.rule("R2b:pipeline-desugaring");
                let lid = self.fresh(); self.pending_loop = Some(lid); let rv = format!("__out{}", lid);
                let mut body = self.gen_pipeline(&p, &Sink::Collect, &rv);
                if let Some((is_once, t)) = tail_text {
                    self.rule("R2c:chain-after-stages");
                    if is_once {
                        let e = self.render_expr(&t);
                        body.push_str(&format!("/*@M:chain-once@*/ {}.push({});\n", rv, e));
                    } else {
                        let p2 = self.parse_pipeline(&t)?;
                        body.push_str(&self.gen_pipeline(&p2, &Sink::Collect, &rv));
                    }
                }
                let ty = match &mc.turbofish {
                    Some(t) if t.args.len() == 1 => {
                        let tt = self.text(t.args[0].span()).to_string();
                        if tt.contains('_') {
                            String::new()
                        } else {
                            format!(": {}", tt)
                        }
                    }
                    _ => String::new(),
                };
                Some(format!(
                    "{{ let mut {rv}{ty} /*@TY:{rv}@*/ = Vec::new();\n{body}{rv} }}",
                    rv = rv,
                    ty = ty,
                    body = body
                ))
            }
            ("any", 1) | ("all", 1) | ("position", 1) if !(self.fc.helpers && name == "any") => {
                let p = self.parse_pipeline(&mc.receiver)?;
                let cl = closure_of(&mc.args[0])?;
                self.rule("R3:consumer-desugaring");
                let lid = self.fresh(); self.pending_loop = Some(lid); let rv = format!("__r{}", lid);
                let (init, sink) = match name.as_str() {
                    "any" => ("bool = false", Sink::Any(&cl)),
                    "all" => ("bool = true", Sink::All(&cl)),
                    _ => ("Option<usize> = None", Sink::Position(&cl)),
                };
                let body = self.gen_pipeline(&p, &sink, &rv);
                Some(format!(
                    "{{ let mut {rv}: {init};\n{body}{rv} }}",
                    rv = rv,
                    init = init,
                    body = body
                ))
            }
            ("any", 1) if self.fc.helpers => {
                // R3h: `X.iter().any(c)` over a slice / Vec, no adapter in between
                if let Expr::MethodCall(inner) = strip_paren(&mc.receiver) {
                    if inner.method == "iter" && inner.args.is_empty() {
                        if let Expr::Closure(_) = strip_paren(&mc.args[0]) {
                            self.rule("R3h:any->vx_any");
                            let recv_text = norm(self.text(inner.receiver.span()));
                            let recv = self.render_expr(&inner.receiver);
                            let s = if self.fc.vec_receivers.contains(&recv_text) { format!("({}).as_slice()", recv) } else { recv };
                            let c = self.render_expr(&mc.args[0]);
                            return Some(format!("vx_any({}, {})", s, c));
                        }
                    }
                }
                None
            }
            ("contains", 1) if self.fc.helpers => {
                self.rule("R3h:contains->vx_contains");
                let recv_text = norm(self.text(mc.receiver.span()));
                let recv = self.render_expr(&mc.receiver);
                let s = if self.fc.vec_receivers.contains(&recv_text) { format!("({}).as_slice()", recv) } else { recv };
                let arg = self.render_expr(&mc.args[0]);
                Some(format!("vx_contains({}, {})", s, arg))
            }
            ("contains", 1) if self.fc.contains_as_loop => {
                // R3: `V.contains(&x)` on a Vec / slice: linear search with `==` (what slice::contains does)
                self.rule("R3:consumer-desugaring");
                let recv = self.render_expr(&mc.receiver);
                let arg = self.render_expr(&mc.args[0]);
                let k = self.fresh();
                self.loop_sigs.insert(k, format!("contains:{}", norm(self.text(mc.receiver.span()))));
                Some(format!(
                    "{{ let __c{k} = {arg}; let mut __r{k}: bool = false;\n/*@PRE#{k}@*/ for __e{k} in __it{k}: ({recv}).iter() /*@INV#{k}@*/ {{ /*@TOP#{k}@*/\nif !__r{k} {{ if *__e{k} == *__c{k} {{ __r{k} = true; }} }}\n/*@BOT#{k}@*/ }} /*@POST#{k}@*/\n__r{k} }}",
                    k = k, arg = arg, recv = recv
                ))
            }
            ("next", 0) => {
                // first element of a pipeline (only meaningful on a fresh iterator expression)
                let p = self.parse_pipeline(&mc.receiver)?;
                self.rule("R3:consumer-desugaring");
                let lid = self.fresh(); self.pending_loop = Some(lid); let rv = format!("__r{}", lid);
                let body = self.gen_pipeline(&p, &Sink::First, &rv);
                Some(format!("{{ let mut {rv} = None;\n{body}{rv} }}", rv = rv, body = body))
            }
            ("max", 0) | ("min", 0) => {
                // R3: maximum / minimum of a pipeline of totally ordered (integer-like) items
                let p = self.parse_pipeline(&mc.receiver)?;
                self.rule("R3:consumer-desugaring");
                let lid = self.fresh(); self.pending_loop = Some(lid); let rv = format!("__r{}", lid);
                let sink = if name == "max" { Sink::Max } else { Sink::Min };
                let body = self.gen_pipeline(&p, &sink, &rv);
                Some(format!("{{ let mut {rv} = None;\n{body}{rv} }}", rv = rv, body = body))
            }
            ("count", 0) => {
                let p = self.parse_pipeline(&mc.receiver)?;
                self.rule("R3:consumer-desugaring");
                if p.stages.is_empty() && p.sources.len() == 1 {
                    if let SourceKind::Eager = p.sources[0].kind {
                        let s = self.render_expr(&p.sources[0].expr);
                        return Some(format!("({}).len()", s));
                    }
                }
                let lid = self.fresh(); self.pending_loop = Some(lid); let rv = format!("__r{}", lid);
                let body = self.gen_pipeline(&p, &Sink::Count, &rv);
                Some(format!(
                    "{{ let mut {rv}: usize = 0;\n{body}{rv} }}",
                    rv = rv,
                    body = body
                ))
            }
            _ => {
                // call of an eager accessor outside a pipeline: rename only
                if self.is_eager_call(&Expr::MethodCall(mc.clone())) {
                    self.rule("R2a:eager-accessor-call");
                    let recv = self.render_expr(&mc.receiver);
                    let mut args = vec![];
                    for a in mc.args.iter() {
                        args.push(self.render_expr(a));
                    }
                    return Some(format!("{}.{}__eager({})", recv, name, args.join(", ")));
                }
                None
            }
        }
    }

    fn try_rewrite_macro(&mut self, m: &ExprMacro) -> Option<String> {
        self.rewrite_macro(&m.mac)
    }

    fn rewrite_macro(&mut self, mac: &Macro) -> Option<String> {
        let name = mac.path.segments.last()?.ident.to_string();
        match name.as_str() {
            "clause" => {
                self.rule("R8:clause!");
                let parser = punctuated::Punctuated::<Expr, Token![,]>::parse_terminated;
                // the macro tokens carry spans into the same source text
                let args = match mac.parse_body_with(parser) {
                    Ok(a) => a,
                    Err(_) => die("clause! with non-expression arguments"),
                };
                let mut parts = vec![];
                for a in args.iter() {
                    let t = self.render_expr(a);
                    parts.push(format!("Literal::from({})", t));
                }
                if parts.is_empty() {
                    Some("Vec::<Literal>::new()".to_string())
                } else {
                    Some(format!("vec![{}]", parts.join(", ")))
                }
            }
            "anyhow" => {
                self.rule("drop:error-payload");
                Some("anyhow_error()".to_string())
            }
            "format" => {
                // text payloads: the value is never inspected, but the arguments are still evaluated (and named, so that a
                // woven assertion can speak about the numbers that are printed)
                self.rule("drop:text-payload");
                let parser = punctuated::Punctuated::<Expr, Token![,]>::parse_terminated;
                match mac.parse_body_with(parser) {
                    Ok(args) if args.len() >= 2 => {
                        let k = self.fresh();
                        let fmt = norm(self.text(args[0].span()));
                        let mut parts = vec![];
                        for a in args.iter().skip(1) {
                            parts.push(self.render_expr(a));
                        }
                        Some(format!(
                            "{{ let __f{k} = ({},); /*@M:fmt {}@*/ opaque_string() }}",
                            parts.join(", "),
                            fmt,
                            k = k
                        ))
                    }
                    _ => Some("opaque_string()".to_string()),
                }
            }
            "write" | "writeln" if self.fc.text_out => {
                // R21: `write!(W, "fmt", a, b)` => `vx_write2(W, "fmt", a, b)`; `writeln!` appends the newline to the literal
                let parser = punctuated::Punctuated::<Expr, Token![,]>::parse_terminated;
                let args = match mac.parse_body_with(parser) {
                    Ok(a) => a,
                    Err(_) => die("write! with non-expression arguments"),
                };
                if args.is_empty() { die("write! without a destination"); }
                let dest = self.render_expr(&args[0]);
                let mut fmt = if args.len() >= 2 {
                    match &args[1] {
                        Expr::Lit(ExprLit { lit: Lit::Str(ls), .. }) => {
                            let t = self.text(ls.span()).to_string();
                            if !t.starts_with('"') { die("write! with a raw / non-plain format literal"); }
                            t
                        }
                        _ => die("write! whose format is not a string literal"),
                    }
                } else {
                    "\"\"".to_string()
                };
                if name == "writeln" {
                    fmt.truncate(fmt.len() - 1);
                    fmt.push_str("\\n\"");
                }
                let mut parts = vec![dest, fmt];
                for a in args.iter().skip(2) {
                    parts.push(self.render_expr(a));
                }
                self.rule("R21:text-output-events");
                Some(format!("vx_write{}({})", args.len().saturating_sub(2), parts.join(", ")))
            }
            "panic" | "unreachable" | "unimplemented" => {
                if self.fc.partial {
                    self.rule("R6:panic->diverge(partial)");
                    Some("vx_diverge()".to_string())
                } else {
                    self.rule("R6:panic->unreached(total)");
                    Some("vx_unreached()".to_string())
                }
            }
            "debug_assert" | "debug_assert_eq" | "trace" | "debug" | "info" | "warn" => {
                self.rule("drop:log-or-debug-assert");
                Some("()".to_string())
            }
            _ => None,
        }
    }

    fn loop_wrap(&mut self, k: usize, head: String, body: &Block) -> String {
        let save = self.in_foreach;
        // `return;` inside a real loop nested in a for_each body still leaves the closure => continue of
        // the *outer* generated loop would be wrong. Refuse by resetting and dying on `return` there.
        self.in_foreach = if save > 0 { usize::MAX } else { 0 };
        let inner = self.render_block_inner(body);
        self.in_foreach = save;
        format!(
            "/*@PRE#{k}@*/ {head} /*@INV#{k}@*/ {{ /*@TOP#{k}@*/ {inner} /*@BOT#{k}@*/ }} /*@POST#{k}@*/",
            k = k,
            head = head,
            inner = inner
        )
    }
}

fn is_place(e: &Expr) -> bool {
    match e {
        Expr::Path(_) => true,
        Expr::Field(f) => is_place(&f.base),
        Expr::Index(i) => is_place(&i.expr),
        Expr::Paren(p) => is_place(&p.expr),
        Expr::Reference(r) => is_place(&r.expr),
        Expr::Unary(u) => matches!(u.op, UnOp::Deref(_)) && is_place(&u.expr),
        _ => false,
    }
}

fn strip_paren(e: &Expr) -> &Expr {
    match e {
        Expr::Paren(p) => strip_paren(&p.expr),
        Expr::Group(g) => strip_paren(&g.expr),
        _ => e,
    }
}

fn closure_of(e: &Expr) -> Option<ExprClosure> {
    match strip_paren(e) {
        Expr::Closure(c) => Some(c.clone()),
        _ => None,
    }
}

struct V<'r, 'a> {
    r: &'r mut R<'a>,
    edits: Vec<Edit>,
}

impl<'r, 'a> V<'r, 'a> {
    fn replace(&mut self, s: Span, text: String) {
        let (a, b) = rng(s);
        self.edits.push(Edit {
            start: a,
            end: b,
            text,
        });
    }

    fn block_stmts(&mut self, b: &Block) {
        // R4 / error-payload: pre-scan `let IDENT = <closure>;`
        let mut dropped: BTreeSet<usize> = BTreeSet::new();
        for (i, st) in b.stmts.iter().enumerate() {
            if let Stmt::Local(l) = st {
                if let (Pat::Ident(pi), Some(init)) = (&l.pat, &l.init) {
                    if let Expr::Closure(c) = &*init.expr {
                        let id = pi.ident.to_string();
                        // closure whose body is a format! call: error-message builder
                        let is_fmt = match &*c.body {
                            Expr::Macro(m) => m
                                .mac
                                .path
                                .segments
                                .last()
                                .map(|s| s.ident == "format")
                                .unwrap_or(false),
                            _ => false,
                        };
                        let rest: String = b.stmts[i + 1..]
                            .iter()
                            .map(|s| self.r.text(s.span()).to_string())
                            .collect::<Vec<_>>()
                            .join("\n");
                        let uses = count_ident(&rest, &id);
                        if is_fmt && c.inputs.is_empty() {
                            let ctx_uses = rest.matches(&format!("with_context({})", id)).count();
                            if uses == ctx_uses {
                                dropped.insert(i);
                                self.r.rule("drop:error-context");
                            }
                        } else if uses == 1 && rest.contains(&format!(".for_each({})", id)) {
                            self.r.named_closures.insert(id, c.clone());
                            dropped.insert(i);
                        } else if self.r.fc.inline_closures.contains(&id)
                            && uses > 0
                            && uses == rest.matches(&format!("{}(", id)).count()
                        {
                            // R22: a local closure that is only ever called directly is inlined at its call sites
                            self.r.inline_closures.insert(id, c.clone());
                            dropped.insert(i);
                        }
                    }
                }
            }
        }
        // R15: Verus' for-loops have no `continue`. In a loop body, `if C { ..; continue; } REST` (no else branch; also the
        // `return;` of a for_each closure) becomes `if C { .. } else { REST }`.
        let is_loop_body = self.r.loop_bodies.contains(&rng(b.span()));
        let mut closers = 0usize;
        let mut truncated = false;
        let mut skipping = self.r.fc.slice_from.is_some() && self.r.body_block == Some(rng(b.span()));
        for (i, st) in b.stmts.iter().enumerate() {
            let (a, e) = rng(st.span());
            if skipping {
                // R11: statements before the fragment's first statement are not part of it (whatever their shape)
                let stext0 = norm(self.r.text(st.span()));
                if !stext0.starts_with(self.r.fc.slice_from.as_ref().unwrap().as_str()) {
                    self.edits.push(Edit { start: a, end: e, text: String::new() });
                    continue;
                }
                skipping = false;
                self.r.rule("R11:fragment-slice");
            }
            if truncated {
                self.edits.push(Edit { start: a, end: e, text: String::new() });
                continue;
            }
            if is_loop_body && i + 1 < b.stmts.len() {
                if let Stmt::Expr(Expr::If(ife), _) = st {
                    if ife.else_branch.is_none() {
                        let jumps = match ife.then_branch.stmts.last() {
                            Some(Stmt::Expr(Expr::Continue(c), _)) => c.label.is_none(),
                            Some(Stmt::Expr(Expr::Return(r), _)) => r.expr.is_none() && self.r.in_foreach > 0 && self.r.in_foreach != usize::MAX,
                            _ => false,
                        };
                        if jumps {
                            self.r.rule("R15:continue-elimination");
                            let last = ife.then_branch.stmts.last().unwrap();
                            let (ls, le) = rng(last.span());
                            self.edits.push(Edit { start: a, end: a, text: format!("/*@S:{}@*/ ", norm(self.r.text(st.span()))) });
                            // render the condition and the branch without its final jump
                            self.visit_expr(&ife.cond);
                            for st2 in ife.then_branch.stmts.iter().take(ife.then_branch.stmts.len() - 1) {
                                let (a2, _) = rng(st2.span());
                                self.edits.push(Edit { start: a2, end: a2, text: format!("/*@S:{}@*/ ", norm(self.r.text(st2.span()))) });
                                self.visit_stmt(st2);
                            }
                            self.edits.push(Edit { start: ls, end: le, text: String::new() });
                            let (_, ie) = rng(ife.span());
                            self.edits.push(Edit { start: ie, end: e.max(ie), text: " else {".to_string() });
                            closers += 1;
                            continue;
                        }
                    }
                }
            }
            if truncated {
                self.edits.push(Edit {
                    start: a,
                    end: e,
                    text: String::new(),
                });
                continue;
            }
            let stext = norm(self.r.text(st.span()));
            if skipping {
                if stext.starts_with(self.r.fc.slice_from.as_ref().unwrap().as_str()) {
                    skipping = false;
                    self.r.rule("R11:fragment-slice");
                } else {
                    self.edits.push(Edit { start: a, end: e, text: String::new() });
                    continue;
                }
            }
            if let Some(anchor) = self.r.fc.slice_before.clone() {
                if self.r.body_block == Some(rng(b.span())) && stext.starts_with(&anchor) {
                    self.r.rule("R11:prefix-slice");
                    truncated = true;
                    self.edits.push(Edit {
                        start: a,
                        end: e,
                        text: "/*@S:__sliced__@*/".to_string(),
                    });
                    continue;
                }
            }
            if dropped.contains(&i) {
                self.edits.push(Edit {
                    start: a,
                    end: e,
                    text: String::new(),
                });
                continue;
            }
            let is_tail = matches!(st, Stmt::Expr(_, None)) && i + 1 == b.stmts.len()
                && self.r.bind_tail == Some(rng(b.span()));
            if is_tail {
                self.r.rule("R13:tail-binding");
                self.r.tail_bound = true;
                self.edits.push(Edit {
                    start: a,
                    end: a,
                    text: format!("/*@S:{}@*/ let __ret = ", stext),
                });
                self.edits.push(Edit {
                    start: e,
                    end: e,
                    text: "; /*@END@*/ __ret".to_string(),
                });
                self.visit_stmt(st);
                continue;
            }
            if matches!(st, Stmt::Expr(_, None)) && i + 1 == b.stmts.len()
                && self.r.body_block == Some(rng(b.span())) && self.r.bind_tail.is_none() && self.r.unit_fn
            {
                // a unit-typed tail expression becomes a statement, so that end-of-body proof text can follow it
                self.edits.push(Edit { start: e, end: e, text: ";".to_string() });
            }
            // a `for` statement also answers to the text of its `for_each` form and vice versa, so that a hint anchored at one
            // form still finds the statement after a for <-> for_each rewrite
            let alias: Option<String> = match st {
                Stmt::Expr(Expr::ForLoop(fl), _) => Some(format!(
                    "{}.for_each(|{}|",
                    norm(self.r.text(fl.expr.span())),
                    norm(self.r.text(fl.pat.span()))
                )),
                Stmt::Expr(Expr::MethodCall(mc), _) if mc.method == "for_each" && mc.args.len() == 1 => {
                    match closure_of(&mc.args[0]) {
                        Some(c) if c.inputs.len() == 1 => Some(format!(
                            "for {} in {}",
                            norm(self.r.text(c.inputs[0].span())),
                            norm(self.r.text(mc.receiver.span()))
                        )),
                        _ => None,
                    }
                }
                _ => None,
            };
            self.edits.push(Edit {
                start: a,
                end: a,
                text: match &alias {
                    Some(al) => format!("/*@S:{}@*/ /*@S:{}@*/ ", al, stext),
                    None => format!("/*@S:{}@*/ ", stext),
                },
            });
            let alias_e = alias.clone();
            // R5: entry API as a statement
            if let Stmt::Expr(Expr::MethodCall(mc), Some(_)) = st {
                if mc.method == "or_insert_with" && mc.args.len() == 1 {
                    if let (Expr::MethodCall(en), Some(cl)) =
                        (strip_paren(&mc.receiver), closure_of(&mc.args[0]))
                    {
                        if en.method == "entry" && en.args.len() == 1 && cl.inputs.is_empty() {
                            self.r.rule("R5:entry-api");
                            let map = self.r.render_expr(&en.receiver);
                            let key = self.r.render_expr(&en.args[0]);
                            let body = self.r.closure_body_expr(&cl);
                            let k = self.r.fresh();
                            let text = format!(
                                "{{ let __k{k} = {key}; /*@M:r5-key@*/ if !{map}.contains_key(&__k{k}) {{ /*@M:r5-absent@*/ let __v{k} = {body}; /*@M:r5-value@*/ {map}.insert(__k{k}, __v{k}); /*@M:r5-inserted@*/ }} /*@M:r5-done@*/ }}",
                                k = k, key = key, map = map, body = body
                            );
                            self.replace(mc.span(), text);
                            continue;
                        }
                    }
                }
            }
            // statement macros (e.g. `panic!(..);`)
            if let Stmt::Macro(sm) = st {
                if let Some(t) = self.r.rewrite_macro(&sm.mac) {
                    let semi = if sm.semi_token.is_some() { ";" } else { "" };
                    self.edits.push(Edit {
                        start: a,
                        end: e,
                        text: format!("/*@S:{}@*/ {}{}", stext, t, semi),
                    });
                    // remove the marker-only edit pushed above
                    let idx = self
                        .edits
                        .iter()
                        .position(|ed| ed.start == a && ed.end == a)
                        .unwrap();
                    self.edits.remove(idx);
                    continue;
                }
            }
            self.visit_stmt(st);
            // end-of-statement marker (anchor for `after "<statement>"` hints); not for a tail expression
            if !matches!(st, Stmt::Expr(_, None)) {
                self.edits.push(Edit {
                    start: e,
                    end: e,
                    text: match &alias_e {
                        Some(al) => format!(" /*@E:{}@*/ /*@E:{}@*/", stext, al),
                        None => format!(" /*@E:{}@*/", stext),
                    },
                });
            }
        }
        if closers > 0 {
            let (_, be) = rng(b.span());
            // before the closing brace of the block
            self.edits.push(Edit { start: be - 1, end: be - 1, text: "}".repeat(closers) });
        }
    }
}

fn replace_word(hay: &str, id: &str, to: &str) -> String {
    let bytes = hay.as_bytes();
    let mut out = String::new();
    let mut i = 0;
    while let Some(p) = hay[i..].find(id) {
        let s = i + p;
        let e = s + id.len();
        let before_ok = s == 0 || !(bytes[s - 1].is_ascii_alphanumeric() || bytes[s - 1] == b'_');
        let after_ok = e >= bytes.len() || !(bytes[e].is_ascii_alphanumeric() || bytes[e] == b'_');
        out.push_str(&hay[i..s]);
        if before_ok && after_ok {
            out.push_str(to);
        } else {
            out.push_str(id);
        }
        i = e;
    }
    out.push_str(&hay[i..]);
    out
}

fn count_ident(hay: &str, id: &str) -> usize {
    let bytes = hay.as_bytes();
    let mut n = 0;
    let mut i = 0;
    while let Some(p) = hay[i..].find(id) {
        let s = i + p;
        let e = s + id.len();
        let before_ok = s == 0 || !(bytes[s - 1].is_ascii_alphanumeric() || bytes[s - 1] == b'_');
        let after_ok = e >= bytes.len() || !(bytes[e].is_ascii_alphanumeric() || bytes[e] == b'_');
        if before_ok && after_ok {
            n += 1;
        }
        i = e;
    }
    n
}

impl<'r, 'a, 'ast> Visit<'ast> for V<'r, 'a> {
    fn visit_block(&mut self, b: &'ast Block) {
        self.block_stmts(b);
    }

    fn visit_local(&mut self, l: &'ast Local) {
        // hook for a woven type annotation on an un-annotated `let x = ..` (semantics-preserving: rustc checks it)
        if let Pat::Ident(pi) = &l.pat {
            let (_, e) = rng(pi.span());
            self.edits.push(Edit {
                start: e,
                end: e,
                text: format!(" /*@TY:{}@*/", pi.ident),
            });
        }
        // R25: `let X = Rc::new(RefCell::new(E));` for a declared shared cell X is read as `let mut X = E;`
        if let (Pat::Ident(pi), Some(init)) = (&l.pat, &l.init) {
            if self.r.fc.shared_cells.iter().any(|n| pi.ident == n) {
                if let Some(inner) = rc_refcell_new_arg(&init.expr) {
                    self.r.rule("R25:shared-cell-as-content");
                    if pi.mutability.is_none() {
                        let (ps, _) = rng(pi.span());
                        self.edits.push(Edit { start: ps, end: ps, text: "mut ".to_string() });
                    }
                    let t = self.r.render_expr(inner);
                    self.replace(init.expr.span(), t);
                    return;
                }
            }
        }
        visit::visit_local(self, l);
    }

    fn visit_expr(&mut self, e: &'ast Expr) {
        match e {
            Expr::Call(c) if c.args.is_empty() && box_default_type(&c.func).is_some() => {
                // R27: `Box::<T>::default()` is `Box::new(T::default())` (std: `impl<T: Default> Default for Box<T>`)
                self.r.rule("R27:box-default");
                let ty = box_default_type(&c.func).unwrap();
                self.replace(e.span(), format!("Box::new({}::default())", ty));
            }
            Expr::Struct(st) if !self.r.fc.opaque_inits.is_empty() => {
                // R10: an opaque field initialised with `None`
                for fv in st.fields.iter() {
                    let is_none = matches!(&fv.expr, Expr::Path(p) if p.path.is_ident("None"));
                    if let Member::Named(id) = &fv.member {
                        if is_none && fv.colon_token.is_some() && self.r.fc.opaque_inits.iter().any(|n| id == n) {
                            self.r.rule("R10:opaque-field");
                            self.replace(fv.expr.span(), "vx_opaque_none()".to_string());
                            continue;
                        }
                    }
                    self.visit_expr(&fv.expr);
                }
            }
            Expr::MethodCall(mc) => {
                if let Some(t) = self.r.try_rewrite_methodcall(mc) {
                    self.replace(e.span(), t);
                    return;
                }
                visit::visit_expr(self, e);
            }
            Expr::Macro(m) => {
                if let Some(t) = self.r.try_rewrite_macro(m) {
                    self.replace(e.span(), t);
                }
            }
            Expr::Match(m) => {
                // an arm whose body is a bare expression gets braces (same meaning): gives a hook for proof text on that path
                self.visit_expr(&m.expr);
                for arm in &m.arms {
                    if let Some((_, g)) = &arm.guard {
                        self.visit_expr(g);
                    }
                    if matches!(&*arm.body, Expr::Block(_)) {
                        self.visit_expr(&arm.body);
                    } else {
                        let body = self.r.render_expr(&arm.body);
                        let pat = norm(self.r.text(arm.pat.span()));
                        self.replace(arm.body.span(), format!("{{ /*@M:arm {}@*/ {} }}", pat, body));
                    }
                }
            }
            Expr::Binary(bn) if matches!(bn.op, BinOp::Eq(_) | BinOp::Ne(_)) && !self.r.fc.string_vars.is_empty() => {
                // R23: `s == "lit"` for a declared String local s is `s.as_str() == "lit"` (that is how String compares to &str)
                let is_lit = |e: &Expr| matches!(strip_paren(e), Expr::Lit(ExprLit { lit: Lit::Str(_), .. }));
                let var_of = |e: &Expr| -> Option<String> {
                    if let Expr::Path(p) = strip_paren(e) { p.path.get_ident().map(|i| i.to_string()) } else { None }
                };
                let (l, r) = (&*bn.left, &*bn.right);
                let lv = var_of(l).filter(|v| self.r.fc.string_vars.contains(v));
                if lv.is_some() && is_lit(r) {
                    self.r.rule("R23:string-literal-comparison");
                    let op = if matches!(bn.op, BinOp::Eq(_)) { "==" } else { "!=" };
                    let rt = self.r.text(r.span()).to_string();
                    self.replace(e.span(), format!("({}.as_str() {} {})", lv.unwrap(), op, rt));
                    return;
                }
                visit::visit_expr(self, e);
            }
            Expr::Call(c) => {
                // R22: direct call of a local closure that is being inlined
                if let Expr::Path(pp) = strip_paren(&c.func) {
                    if let Some(id) = pp.path.get_ident() {
                        if let Some(cl) = self.r.inline_closures.get(&id.to_string()).cloned() {
                            if cl.inputs.len() == c.args.len() {
                                self.r.rule("R22:local-closure-inlining");
                                let mut t = String::from("{ ");
                                for (pat, a) in cl.inputs.iter().zip(c.args.iter()) {
                                    let pt = self.r.text(pat.span()).to_string();
                                    let at = self.r.render_expr(a);
                                    t.push_str(&format!("let {} = {}; ", pt, at));
                                }
                                let save = self.r.in_foreach;
                                self.r.in_foreach = 0;
                                let body = self.r.render_expr(&cl.body);
                                self.r.in_foreach = save;
                                t.push_str(&body);
                                t.push_str(" }");
                                self.replace(e.span(), t);
                                return;
                            }
                        }
                    }
                }
                // R18: call of a closure stored in an opaque field (`(self.F)(..)` or `(self.F.as_ref().unwrap())(..)`)
                let mut callee: &Expr = strip_paren(&c.func);
                if let Expr::MethodCall(m1) = callee {
                    if m1.method == "unwrap" && m1.args.is_empty() {
                        if let Expr::MethodCall(m2) = strip_paren(&m1.receiver) {
                            if m2.method == "as_ref" && m2.args.is_empty() {
                                callee = strip_paren(&m2.receiver);
                            }
                        }
                    }
                }
                if let Expr::Field(f) = callee {
                    if let (Member::Named(id), Expr::Path(bp)) = (&f.member, strip_paren(&f.base)) {
                        if bp.path.is_ident("self") && self.r.fc.opaque_calls.iter().any(|n| id == n) {
                            self.r.rule("R18:opaque-closure-field-call");
                            let mut args = vec![format!("&self.{}", id)];
                            if let Some(sh) = &self.r.fc.opaque_call_shared {
                                args.push(format!("(&mut *self.{})", sh));
                            }
                            for a in c.args.iter() {
                                args.push(self.r.render_expr(a));
                            }
                            self.replace(e.span(), format!("vx_call_{}({})", id, args.join(", ")));
                            return;
                        }
                    }
                }
                visit::visit_expr(self, e);
            }
            Expr::ForLoop(fl) => {
                // a real `for` loop gets the same shape as a rewritten for_each: `for __e_k in __it_k: SRC { let PAT = __e_k; .. }`
                let k = self.r.fresh();
                let pat = self.r.render_pat(&fl.pat);
                let ex = self.r.render_expr(&fl.expr);
                // same signature as the `X.for_each(..)` form of the loop, so that for <-> for_each keeps its ordinal
                let sig_src = match self.r.parse_source(&fl.expr) {
                    Some(srcs) if srcs.len() == 1 => norm(self.r.text(srcs[0].expr.span())),
                    _ => norm(self.r.text(fl.expr.span())),
                };
                let sig = format!("for_each:{}", sig_src);
                self.r.loop_sigs.insert(k, sig);
                let src_norm = norm(self.r.text(fl.expr.span()));
                if self.r.fc.custom_iters.iter().any(|p| src_norm.starts_with(&norm(p))) {
                    // R16: the language-level desugaring of `for` over a user-defined iterator
                    self.r.rule("R16:for-over-custom-iterator");
                    let save = self.r.in_foreach;
                    self.r.in_foreach = if save > 0 { usize::MAX } else { 0 };
                    let inner = self.r.render_block_inner(&fl.body);
                    self.r.in_foreach = save;
                    let t = format!(
                        "{{ let mut __ci{k} = {ex};\n/*@PRE#{k}@*/ loop /*@INV#{k}@*/ {{ /*@TOP#{k}@*/\nlet __nx{k} = __ci{k}.next();\nmatch __nx{k} {{ None => {{ /*@M:done@*/ break; }} Some({pat}) => {{ /*@M:item@*/\n{inner}\n}} }}\n/*@BOT#{k}@*/ }} /*@POST#{k}@*/ }}",
                        k = k, ex = ex, pat = pat, inner = inner
                    );
                    self.replace(e.span(), t);
                    return;
                }
                let save = self.r.in_foreach;
                self.r.in_foreach = if save > 0 { usize::MAX } else { 0 };
                self.r.loop_bodies.insert(rng(fl.body.span()));
                let inner = self.r.render_block_inner(&fl.body);
                self.r.in_foreach = save;
                // a source that is itself a computation (`for x in obj.compute()`) is bound first, so that proof text can name it
                let computed_source = match strip_paren(&fl.expr) {
                    Expr::MethodCall(m) => !matches!(m.method.to_string().as_str(), "iter" | "iter_mut" | "into_iter" | "rev" | "enumerate" | "skip" | "zip" | "chain" | "map" | "filter" | "cloned" | "copied" | "keys" | "values" | "lines" | "chars" | "bytes" | "drain"),
                    Expr::Call(_) => true,
                    _ => false,
                };
                let (pre, src) = if self.r.is_eager_call(strip_paren(&fl.expr)) || computed_source {
                    (format!("let __s{} = {};\n", k, ex), format!("__s{}", k))
                } else {
                    (String::new(), ex)
                };
                let t = format!(
                    "{{ {pre}/*@PRE#{k}@*/ for __e{k} in __it{k}: {src} /*@INV#{k}@*/ {{ /*@TOP#{k}@*/\nlet {pat} = __e{k};\n{inner}\n/*@BOT#{k}@*/ }} /*@POST#{k}@*/ }}",
                    pre = pre, k = k, src = src, pat = pat, inner = inner
                );
                self.replace(e.span(), t);
            }
            Expr::While(w) if matches!(&*w.cond, Expr::Let(_)) => {
                // R20: `while let P = E { B }` is `loop { match E { P => { B } _ => break } }` (the language's own desugaring)
                self.r.rule("R20:while-let-desugaring");
                let l = match &*w.cond { Expr::Let(l) => l, _ => unreachable!() };
                let scrut = self.r.render_expr(&l.expr);
                let pat = self.r.render_pat(&l.pat);
                let k = self.r.fresh();
                let sig = format!("while let {} = {}", norm(self.r.text(l.pat.span())), norm(self.r.text(l.expr.span())));
                self.r.loop_sigs.insert(k, sig);
                let save = self.r.in_foreach;
                self.r.in_foreach = if save > 0 { usize::MAX } else { 0 };
                let inner = self.r.render_block_inner(&w.body);
                self.r.in_foreach = save;
                let t = format!(
                    "/*@PRE#{k}@*/ loop /*@INV#{k}@*/ {{ /*@TOP#{k}@*/\nlet __nx{k} = {scrut};\nmatch __nx{k} {{ {pat} => {{ /*@M:item@*/\n{inner}\n}} _ => {{ /*@M:done@*/ break; }} }}\n/*@BOT#{k}@*/ }} /*@POST#{k}@*/",
                    k = k, scrut = scrut, pat = pat, inner = inner
                );
                self.replace(e.span(), t);
            }
            Expr::While(w) => {
                let c = self.r.render_expr(&w.cond);
                let head = format!("while {}", c);
                let k = self.r.fresh();
                let sig = format!("while {}", norm(self.r.text(w.cond.span())));
                self.r.loop_sigs.insert(k, sig);
                let t = self.r.loop_wrap(k, head, &w.body);
                self.replace(e.span(), t);
            }
            Expr::Loop(l) => {
                let k = self.r.fresh();
                self.r.loop_sigs.insert(k, "loop".to_string());
                let t = self.r.loop_wrap(k, "loop".to_string(), &l.body);
                self.replace(e.span(), t);
            }
            Expr::Closure(c) => {
                // a closure literal not consumed by a rule: marker for a woven closure contract
                let k = self.r.fresh();
                let (a, _) = rng(c.span());
                let (bs, be) = rng(c.body.span());
                let save = self.r.in_foreach;
                self.r.in_foreach = 0;
                let body = self.r.render_expr(&c.body);
                self.r.in_foreach = save;
                let header = self.r.src[a..bs].to_string();
                let _ = be;
                let body = if matches!(&*c.body, Expr::Block(_)) {
                    body
                } else {
                    format!("{{ /*@M:closure-body@*/ {} }}", body)
                };
                self.replace(
                    e.span(),
                    format!("/*@CLS#{k}:BEGIN@*/{}/*@CLS#{k}:END@*/ {}", header, body, k = k),
                );
            }
            Expr::Try(t) => {
                // R14: `E?` => explicit match (same error type: the `From` conversion is the identity); gives a
                // hook for proof text on the early-exit path
                self.r.rule("R14:try-desugaring");
                let inner = self.r.render_expr(&t.expr);
                let k = self.r.fresh();
                self.replace(
                    e.span(),
                    format!(
                        "(match {} {{ Ok(__t{k}) => __t{k}, Err(__x{k}) => {{ /*@M:try-err@*/ return Err(__x{k}); }} }})",
                        inner,
                        k = k
                    ),
                );
            }
            Expr::Return(r) => {
                if self.r.in_foreach == usize::MAX {
                    die("`return` inside a loop nested in a for_each closure");
                }
                if self.r.in_foreach > 0 {
                    if r.expr.is_some() {
                        die("`return <value>` inside a for_each closure");
                    }
                    self.r.rule("R1:return->continue");
                    self.replace(e.span(), "continue".to_string());
                } else {
                    visit::visit_expr(self, e);
                }
            }
            _ => visit::visit_expr(self, e),
        }
    }
}

// -------------------------------------------------------------------- item selection

fn type_last_ident(t: &Type) -> Option<String> {
    match t {
        Type::Path(p) => p.path.segments.last().map(|s| s.ident.to_string()),
        Type::Reference(r) => type_last_ident(&r.elem),
        _ => None,
    }
}

struct Found<'f> {
    /// text of the `impl ... ` / `trait ...` header (up to, not including, the `{`), or empty
    container: String,
    kind: &'static str,
    item: FoundItem<'f>,
    /// associated types declared by the enclosing impl: (`Item`, text of its type)
    assoc: Vec<(String, String)>,
}

enum FoundItem<'f> {
    Fn(&'f Signature, Option<&'f Block>, Span),
    Struct(&'f ItemStruct),
    Enum(&'f ItemEnum),
    TypeAlias(&'f ItemType),
}

fn find_item<'f>(file: &'f File, src: &str, sel: &str) -> Option<Found<'f>> {
    // selectors:
    //   fn NAME | struct NAME | enum NAME | type NAME
    //   impl TYPE::NAME | impl TRAIT for TYPE::NAME | trait TRAIT::NAME
    let sel = sel.trim();
    let header_of = |start: Span, brace: Span| -> String {
        let (a, _) = rng(start);
        let (b, _) = rng(brace);
        src[a..b].trim().to_string()
    };
    if let Some(n) = sel.strip_prefix("fn ") {
        for it in &file.items {
            if let Item::Fn(f) = it {
                if f.sig.ident == n {
                    return Some(Found {
                        container: String::new(),
                        assoc: vec![],
                        kind: "fn",
                        item: FoundItem::Fn(&f.sig, Some(&f.block), f.span()),
                    });
                }
            }
        }
        return None;
    }
    if let Some(n) = sel.strip_prefix("struct ") {
        for it in &file.items {
            if let Item::Struct(s) = it {
                if s.ident == n {
                    return Some(Found {
                        container: String::new(),
                        assoc: vec![],
                        kind: "struct",
                        item: FoundItem::Struct(s),
                    });
                }
            }
        }
        return None;
    }
    if let Some(n) = sel.strip_prefix("enum ") {
        for it in &file.items {
            if let Item::Enum(s) = it {
                if s.ident == n {
                    return Some(Found {
                        container: String::new(),
                        assoc: vec![],
                        kind: "enum",
                        item: FoundItem::Enum(s),
                    });
                }
            }
        }
        return None;
    }
    if let Some(n) = sel.strip_prefix("type ") {
        for it in &file.items {
            if let Item::Type(s) = it {
                if s.ident == n {
                    return Some(Found {
                        container: String::new(),
                        assoc: vec![],
                        kind: "type",
                        item: FoundItem::TypeAlias(s),
                    });
                }
            }
        }
        return None;
    }
    if let Some(rest) = sel.strip_prefix("trait ") {
        let (tn, fnn) = rest.split_once("::")?;
        for it in &file.items {
            if let Item::Trait(t) = it {
                if t.ident == tn.trim() {
                    for ti in &t.items {
                        if let TraitItem::Fn(f) = ti {
                            if f.sig.ident == fnn.trim() {
                                return Some(Found {
                                    container: header_of(t.trait_token.span(), t.brace_token.span.open()),
                                    assoc: vec![],
                        kind: "trait",
                                    item: FoundItem::Fn(&f.sig, f.default.as_ref(), f.span()),
                                });
                            }
                        }
                    }
                }
            }
        }
        return None;
    }
    if let Some(rest) = sel.strip_prefix("impl ") {
        let (head, fnn) = rest.rsplit_once("::")?;
        let (tr, ty) = match head.split_once(" for ") {
            Some((t, y)) => (Some(t.trim().to_string()), y.trim().to_string()),
            None => (None, head.trim().to_string()),
        };
        for it in &file.items {
            if let Item::Impl(im) = it {
                let ity = type_last_ident(&im.self_ty);
                if ity.as_deref() != Some(ty.as_str()) {
                    continue;
                }
                let itr = im
                    .trait_
                    .as_ref()
                    .and_then(|(_, p, _)| p.segments.last().map(|s| s.ident.to_string()));
                if itr != tr {
                    continue;
                }
                let mut assoc = vec![];
                for ii in &im.items {
                    if let ImplItem::Type(t) = ii {
                        let (a, b) = rng(t.ty.span());
                        assoc.push((t.ident.to_string(), src[a..b].to_string()));
                    }
                }
                for ii in &im.items {
                    if let ImplItem::Fn(f) = ii {
                        if f.sig.ident == fnn.trim() {
                            return Some(Found {
                                container: header_of(im.impl_token.span(), im.brace_token.span.open()),
                                assoc: assoc.clone(),
                                kind: if tr.is_some() { "trait-impl" } else { "impl" },
                                item: FoundItem::Fn(&f.sig, Some(&f.block), f.span()),
                            });
                        }
                    }
                }
            }
        }
        return None;
    }
    None
}

/// If the type is `impl Iterator<Item = X> + ...`, returns the text of X
fn impl_iterator_item(t: &Type, src: &str) -> Option<String> {
    if let Type::ImplTrait(it) = t {
        for b in &it.bounds {
            if let TypeParamBound::Trait(tb) = b {
                let seg = tb.path.segments.last()?;
                if seg.ident == "Iterator" {
                    if let PathArguments::AngleBracketed(ab) = &seg.arguments {
                        for a in &ab.args {
                            if let GenericArgument::AssocType(at) = a {
                                if at.ident == "Item" {
                                    let (s, e) = rng(at.ty.span());
                                    return Some(src[s..e].to_string());
                                }
                            }
                        }
                    }
                }
            }
        }
    }
    None
}

fn line_of(src: &str, off: usize) -> usize {
    src[..off].matches('\n').count() + 1
}

fn renumber(text: &str, sigs: &HashMap<usize, String>, baseline: &[String]) -> (String, usize, usize, Vec<String>) {
    // loops are numbered in order of appearance of their INV marker; when the baseline signature list of the function is
    // known, a loop whose signature matches the next unmatched baseline loop keeps that loop's ordinal, and loops that are
    // new get ordinals above the baseline ones (so that woven invariants keep pointing at the loops they were written for)
    let mut loops: Vec<String> = vec![];
    let mut closures: Vec<String> = vec![];
    let mut i = 0;
    while let Some(p) = text[i..].find("/*@") {
        let s = i + p + 3;
        let e = s + text[s..].find("@*/").unwrap();
        let body = &text[s..e];
        if let Some(rest) = body.strip_prefix("INV#") {
            if !loops.contains(&rest.to_string()) {
                loops.push(rest.to_string());
            }
        }
        if let Some(rest) = body.strip_prefix("CLS#") {
            if let Some(id) = rest.strip_suffix(":BEGIN") {
                if !closures.contains(&id.to_string()) {
                    closures.push(id.to_string());
                }
            }
        }
        i = e + 3;
    }
    let cur_sigs: Vec<String> = loops
        .iter()
        .map(|id| sigs.get(&id.parse::<usize>().unwrap()).cloned().unwrap_or_default())
        .collect();
    let mut ordinals: Vec<usize> = vec![];
    if baseline.is_empty() || baseline.len() == cur_sigs.len() {
        // same number of loops as in the baseline: the loops are taken to be the same ones, in order (a renamed collection or a
        // `for` <-> `for_each` change does not move the invariants)
        ordinals = (0..loops.len()).collect();
    } else {
        let mut ptr = 0usize;
        let mut next_new = baseline.len();
        for sg in &cur_sigs {
            let mut found = None;
            for j in ptr..baseline.len() {
                if &baseline[j] == sg {
                    found = Some(j);
                    break;
                }
            }
            match found {
                Some(j) => {
                    ordinals.push(j);
                    ptr = j + 1;
                }
                None => {
                    ordinals.push(next_new);
                    next_new += 1;
                }
            }
        }
    }
    let mut out = text.to_string();
    // two passes through a placeholder so that renamed ordinals cannot collide with not-yet-renamed ids
    for (idx, id) in loops.iter().enumerate() {
        let k = ordinals[idx];
        for pre in ["__it", "__e", "__s", "__out", "__r", "__n", "__p", "__c", "__ci", "__nx"] {
            out = replace_word(&out, &format!("{}{}", pre, id), &format!("{}_~{}", pre, k));
        }
        // map temporaries: __m<id>x<i>
        for mi in 0..32 {
            out = replace_word(&out, &format!("__m{}x{}", id, mi), &format!("__m_~{}_{}", k, mi));
        }
        for tag in ["PRE", "INV", "TOP", "BOT", "POST"] {
            out = out.replace(
                &format!("/*@{}#{}@*/", tag, id),
                &format!("/*@{}:{}@*/", tag, k),
            );
        }
    }
    out = out.replace("_~", "_");
    // other temporaries: numbered per family by order of first appearance
    for fam in ["__k", "__v", "__t", "__x", "__f"] {
        let mut seen: Vec<String> = vec![];
        let bytes = out.as_bytes();
        let mut i = 0;
        while let Some(p) = out[i..].find(fam) {
            let s0 = i + p;
            let mut e = s0 + fam.len();
            while e < bytes.len() && bytes[e].is_ascii_digit() {
                e += 1;
            }
            let before_ok = s0 == 0 || !(bytes[s0 - 1].is_ascii_alphanumeric() || bytes[s0 - 1] == b'_');
            let after_ok = e >= bytes.len() || !(bytes[e].is_ascii_alphanumeric() || bytes[e] == b'_');
            if before_ok && after_ok && e > s0 + fam.len() {
                let id = out[s0..e].to_string();
                if !seen.contains(&id) {
                    seen.push(id);
                }
            }
            i = e;
        }
        for (k, id) in seen.iter().enumerate() {
            out = replace_word(&out, id, &format!("{}_{}~", fam, k));
        }
        out = out.replace('~', "");
    }
    for (k, id) in closures.iter().enumerate() {
        out = out.replace(
            &format!("/*@CLS#{}:BEGIN@*/", id),
            &format!("/*@CLS:{}:BEGIN@*/", k),
        );
        out = out.replace(
            &format!("/*@CLS#{}:END@*/", id),
            &format!("/*@CLS:{}:END@*/", k),
        );
    }
    // signature list indexed by ordinal (for the baseline)
    let n_ord = ordinals.iter().map(|o| o + 1).max().unwrap_or(0);
    let mut by_ord = vec![String::new(); n_ord];
    for (idx, o) in ordinals.iter().enumerate() {
        by_ord[*o] = cur_sigs[idx].clone();
    }
    (out, loops.len(), closures.len(), by_ord)
}

// -------------------------------------------------------------------- call-site obligations (C17)

struct SiteVisitor<'a> {
    src: &'a str,
    file: String,
    fn_stack: Vec<String>,
    consumed: BTreeSet<(usize, usize)>,
    sites: Vec<Value>,
    /// local variables bound directly to the result of a solve call: name -> the call
    tracked: HashMap<String, ExprMethodCall>,
}

fn path_ident(e: &Expr) -> Option<String> {
    if let Expr::Path(p) = strip_paren(e) {
        return p.path.get_ident().map(|i| i.to_string());
    }
    None
}

thread_local! {
    /// crate-local functions that return the SolvingResult of a solve call unchanged (found by a fixpoint pre-pass)
    static SOLVE_LIKE: std::cell::RefCell<BTreeSet<String>> = std::cell::RefCell::new(BTreeSet::new());
}

fn is_solve_call(e: &Expr) -> Option<&ExprMethodCall> {
    if let Expr::MethodCall(mc) = strip_paren(e) {
        let n = mc.method.to_string();
        if (n == "solve" && mc.args.is_empty()) || (n == "solve_under_assumptions" && mc.args.len() == 1) {
            return Some(mc);
        }
        if SOLVE_LIKE.with(|s| s.borrow().contains(&n)) {
            return Some(mc);
        }
    }
    None
}

/// pre-pass: a function whose declared return type mentions SolvingResult and whose tail expression is a solve(-like) call
struct WrapperFinder {
    found: Vec<String>,
}
impl<'ast> Visit<'ast> for WrapperFinder {
    fn visit_item_mod(&mut self, m: &'ast ItemMod) {
        for a in &m.attrs {
            if a.path().is_ident("cfg") {
                return;
            }
        }
        visit::visit_item_mod(self, m);
    }
    fn visit_impl_item_fn(&mut self, f: &'ast ImplItemFn) {
        self.check(&f.sig, &f.block);
    }
    fn visit_item_fn(&mut self, f: &'ast ItemFn) {
        self.check(&f.sig, &f.block);
    }
}
impl WrapperFinder {
    fn check(&mut self, sig: &Signature, b: &Block) {
        let ret = match &sig.output {
            ReturnType::Type(_, t) => quote::quote!(#t).to_string(),
            _ => return,
        };
        if !ret.contains("SolvingResult") {
            return;
        }
        let n = sig.ident.to_string();
        if n == "solve" || n == "solve_under_assumptions" {
            return;
        }
        if let Some(Stmt::Expr(e, None)) = b.stmts.last() {
            if is_solve_call(e).is_some() {
                self.found.push(n);
            }
        }
    }
}

fn arm_diverges(e: &Expr) -> bool {
    match e {
        Expr::Macro(m) => {
            let n = m.mac.path.segments.last().map(|s| s.ident.to_string()).unwrap_or_default();
            n == "panic" || n == "unreachable" || n == "unimplemented"
        }
        Expr::Block(b) => match b.block.stmts.last() {
            Some(Stmt::Expr(e, _)) => arm_diverges(e),
            Some(Stmt::Macro(m)) => {
                let n = m.mac.path.segments.last().map(|s| s.ident.to_string()).unwrap_or_default();
                n == "panic" || n == "unreachable" || n == "unimplemented"
            }
            _ => false,
        },
        _ => false,
    }
}

impl<'a> SiteVisitor<'a> {
    fn match_verdict(&self, m: &ExprMatch) -> (&'static str, &'static str) {
        // acceptable only if an explicit `SolvingResult::Unknown` arm diverges and no wildcard precedes it
        let mut verdict = ("fail", "match on the SolvingResult without a diverging Unknown arm");
        for arm in &m.arms {
            let pt = norm(&self.src[rng(arm.pat.span()).0..rng(arm.pat.span()).1]);
            if pt == "_" || (!pt.contains("::") && !pt.contains('(')) {
                break;
            }
            if pt.ends_with("Unknown") {
                if arm_diverges(&arm.body) {
                    verdict = ("ok", "explicit Unknown arm diverges");
                }
                break;
            }
        }
        verdict
    }

    fn flush_tracked(&mut self) {
        let pending: Vec<ExprMethodCall> = self.tracked.drain().map(|(_, v)| v).collect();
        for mc in pending {
            self.record(&mc, "undecided", "SolvingResult bound to a local whose use this syntactic obligation cannot follow");
        }
    }

    fn record(&mut self, mc: &ExprMethodCall, status: &str, why: &str) {
        let (a, b) = rng(mc.span());
        if self.consumed.contains(&(a, b)) {
            return;
        }
        self.consumed.insert((a, b));
        self.sites.push(json!({
            "file": self.file, "line": line_of(self.src, rng(mc.method.span()).0),
            "function": self.fn_stack.last().cloned().unwrap_or_default(),
            "call": mc.method.to_string(), "status": status, "why": why,
            "text": norm(&self.src[a..b]),
        }));
    }
}

impl<'a, 'ast> Visit<'ast> for SiteVisitor<'a> {
    fn visit_item_mod(&mut self, m: &'ast ItemMod) {
        // #[cfg(test)] modules are not part of the library
        for a in &m.attrs {
            if a.path().is_ident("cfg") {
                let t = norm(&self.src[rng(a.span()).0..rng(a.span()).1]);
                if t.contains("test") {
                    return;
                }
            }
        }
        visit::visit_item_mod(self, m);
    }
    fn visit_impl_item_fn(&mut self, f: &'ast ImplItemFn) {
        self.fn_stack.push(f.sig.ident.to_string());
        visit::visit_impl_item_fn(self, f);
        self.flush_tracked();
        self.fn_stack.pop();
    }
    fn visit_item_fn(&mut self, f: &'ast ItemFn) {
        self.fn_stack.push(f.sig.ident.to_string());
        visit::visit_item_fn(self, f);
        self.flush_tracked();
        self.fn_stack.pop();
    }
    fn visit_trait_item_fn(&mut self, f: &'ast TraitItemFn) {
        self.fn_stack.push(f.sig.ident.to_string());
        visit::visit_trait_item_fn(self, f);
        self.flush_tracked();
        self.fn_stack.pop();
    }
    fn visit_local(&mut self, l: &'ast Local) {
        if let (Pat::Ident(pi), Some(init)) = (&l.pat, &l.init) {
            if init.diverge.is_none() {
                if let Some(mc) = is_solve_call(&init.expr) {
                    let (a, b) = rng(mc.span());
                    self.tracked.insert(pi.ident.to_string(), mc.clone());
                    // the receiver/arguments may contain further calls
                    visit::visit_expr(self, &mc.receiver);
                    for a in mc.args.iter() {
                        visit::visit_expr(self, a);
                    }
                    let _ = (a, b);
                    return;
                }
            }
        }
        visit::visit_local(self, l);
    }
    fn visit_expr(&mut self, e: &'ast Expr) {
        match e {
            Expr::MethodCall(mc) if mc.method == "unwrap_model" && mc.args.is_empty() => {
                if let Some(inner) = is_solve_call(&mc.receiver) {
                    self.record(inner, "ok", "result handed directly to unwrap_model()");
                } else if let Some(x) = path_ident(&mc.receiver) {
                    if let Some(inner) = self.tracked.remove(&x) {
                        self.record(&inner, "ok", "result bound to a local that is handed to unwrap_model()");
                    }
                }
            }
            Expr::Match(m) => {
                if let Some(inner) = is_solve_call(&m.expr) {
                    let verdict = self.match_verdict(m);
                    self.record(inner, verdict.0, verdict.1);
                } else if let Some(x) = path_ident(&m.expr) {
                    if let Some(inner) = self.tracked.remove(&x) {
                        let verdict = self.match_verdict(m);
                        self.record(&inner, verdict.0, verdict.1);
                    }
                }
            }
            Expr::Let(l) => {
                if let Some(inner) = is_solve_call(&l.expr) {
                    self.record(inner, "fail", "`if let`/`while let` on the SolvingResult: Unknown falls into the else branch");
                } else if let Some(x) = path_ident(&l.expr) {
                    if let Some(inner) = self.tracked.remove(&x) {
                        self.record(&inner, "fail", "`if let`/`while let` on the SolvingResult: Unknown falls into the else branch");
                    }
                }
            }
            Expr::MethodCall(mc) => {
                if is_solve_call(e).is_some() {
                    // visited as a bare call below (parents that consume it were handled above)
                } else if let Some(inner) = is_solve_call(&mc.receiver) {
                    self.record(inner, "undecided", "SolvingResult consumed by a method other than unwrap_model()");
                }
            }
            Expr::Macro(m) => {
                let t = m.mac.tokens.to_string();
                if count_ident(&t, "solve") + count_ident(&t, "solve_under_assumptions") > 0 {
                    let (a, _) = rng(m.span());
                    self.sites.push(json!({"file": self.file, "line": line_of(self.src, a),
                        "function": self.fn_stack.last().cloned().unwrap_or_default(), "call": "macro",
                        "status": "undecided", "why": "a macro body mentions solve", "text": norm(&t)}));
                }
            }
            _ => {}
        }
        visit::visit_expr(self, e);
        if let Some(mc) = is_solve_call(e) {
            if let Expr::MethodCall(_) = e {
                self.record(mc, "undecided", "SolvingResult flows somewhere this syntactic obligation cannot follow");
            }
        }
    }
}

fn sites_main(args: &[String]) {
    // vx sites <src_root> <out.json> <relative dirs...>
    let root = &args[2];
    let mut all = vec![];
    let mut stack: Vec<std::path::PathBuf> = args[4..].iter().map(|d| std::path::Path::new(root).join(d)).collect();
    let mut filesv = vec![];
    while let Some(p) = stack.pop() {
        if p.is_dir() {
            for e in std::fs::read_dir(&p).unwrap() {
                stack.push(e.unwrap().path());
            }
        } else if p.extension().map(|e| e == "rs").unwrap_or(false) {
            filesv.push(p);
        }
    }
    filesv.sort();
    loop {
        let mut wf = WrapperFinder { found: vec![] };
        for p in &filesv {
            let text = std::fs::read_to_string(p).unwrap();
            if let Ok(parsed) = syn::parse_file(&text) {
                wf.visit_file(&parsed);
            }
        }
        let mut grew = false;
        SOLVE_LIKE.with(|s| {
            for n in wf.found {
                if s.borrow_mut().insert(n) {
                    grew = true;
                }
            }
        });
        if !grew {
            break;
        }
    }
    for p in filesv {
        let text = std::fs::read_to_string(&p).unwrap();
        let parsed = match syn::parse_file(&text) {
            Ok(f) => f,
            Err(e) => die(&format!("cannot parse {}: {}", p.display(), e)),
        };
        let rel = p.strip_prefix(root).unwrap().display().to_string();
        let mut v = SiteVisitor { src: &text, file: rel, fn_stack: vec![], consumed: BTreeSet::new(), sites: vec![], tracked: HashMap::new() };
        v.visit_file(&parsed);
        all.extend(v.sites);
    }
    std::fs::write(&args[3], serde_json::to_string_pretty(&json!({"sites": all})).unwrap()).expect("write");
}


/// `vx dispatch <src_root> <out.json> <relative file>`: for every function of the file that binds
/// `let mut solver: Box<dyn TRAIT<..>> = match semantics { .. }`, the table arm patterns -> first `Type::constructor` path of the arm
fn dispatch_main(args: &[String]) {
    let root = &args[2];
    let rel = &args[4];
    let p = std::path::Path::new(root).join(rel);
    let text = std::fs::read_to_string(&p).unwrap_or_else(|e| die(&format!("cannot read {}: {}", p.display(), e)));
    let parsed = syn::parse_file(&text).unwrap_or_else(|e| die(&format!("cannot parse {}: {}", p.display(), e)));
    let mut tables = vec![];
    for it in &parsed.items {
        let f = match it { Item::Fn(f) => f, _ => continue };
        for st in &f.block.stmts {
            let l = match st { Stmt::Local(l) => l, _ => continue };
            let (name, ty) = match &l.pat {
                Pat::Type(pt) => match &*pt.pat { Pat::Ident(pi) => (pi.ident.to_string(), norm(&text[rng(pt.ty.span()).0..rng(pt.ty.span()).1])), _ => continue },
                _ => continue,
            };
            if name != "solver" || !ty.starts_with("Box<dyn") { continue; }
            let init = match &l.init { Some(i) => &i.expr, None => continue };
            let m = match &**init { Expr::Match(m) => m, _ => continue };
            let scrut = norm(&text[rng(m.expr.span()).0..rng(m.expr.span()).1]);
            let mut arms = vec![];
            for arm in &m.arms {
                let pat = norm(&text[rng(arm.pat.span()).0..rng(arm.pat.span()).1]);
                let mut finder = FirstCtor { found: None };
                finder.visit_expr(&arm.body);
                let line = text[..rng(arm.pat.span()).0].matches('\n').count() + 1;
                arms.push(json!({"pattern": pat, "guard": arm.guard.is_some(), "ctor": finder.found, "line": line}));
            }
            tables.push(json!({"function": f.sig.ident.to_string(), "trait": ty, "scrutinee": scrut, "arms": arms}));
        }
    }
    // encoder tables: a function whose last expression is `match X { .. }`: per arm, every `new_for_*` function called and every
    // `Box::<Type>::default()` type named in the arm
    let mut enc_tables = vec![];
    for it in &parsed.items {
        let f = match it { Item::Fn(f) => f, _ => continue };
        let m = match f.block.stmts.last() { Some(Stmt::Expr(Expr::Match(m), None)) => m, _ => continue };
        let scrut = norm(&text[rng(m.expr.span()).0..rng(m.expr.span()).1]);
        let mut arms = vec![];
        for arm in &m.arms {
            let pat = norm(&text[rng(arm.pat.span()).0..rng(arm.pat.span()).1]);
            let guard = arm.guard.as_ref().map(|g| norm(&text[rng(g.1.span()).0..rng(g.1.span()).1]));
            let mut c = AllCtors { found: vec![] };
            c.visit_expr(&arm.body);
            let line = text[..rng(arm.pat.span()).0].matches('\n').count() + 1;
            arms.push(json!({"pattern": pat, "guard": guard, "ctors": c.found, "line": line}));
        }
        enc_tables.push(json!({"function": f.sig.ident.to_string(), "scrutinee": scrut, "arms": arms}));
    }
    std::fs::write(&args[3], serde_json::to_string_pretty(&json!({"tables": tables, "tail_match_tables": enc_tables})).unwrap()).expect("write");
}

struct AllCtors { found: Vec<String> }
impl<'ast> Visit<'ast> for AllCtors {
    fn visit_expr_call(&mut self, c: &'ast syn::ExprCall) {
        if let Expr::Path(p) = &*c.func {
            let segs: Vec<String> = p.path.segments.iter().map(|s| s.ident.to_string()).collect();
            let last = segs.last().cloned().unwrap_or_default();
            if last.starts_with("new_for_") || last.starts_with("new_default_") {
                self.found.push(last);
            } else if last == "default" && segs.len() >= 2 && segs[segs.len() - 2] == "Box" {
                // `Box::<Type>::default()`: the type argument of Box
                if let Some(seg) = p.path.segments.iter().rev().nth(1) {
                    if let syn::PathArguments::AngleBracketed(ab) = &seg.arguments {
                        for a in ab.args.iter() {
                            if let syn::GenericArgument::Type(Type::Path(tp)) = a {
                                if let Some(l) = tp.path.segments.last() { self.found.push(format!("{}::default", l.ident)); }
                            }
                        }
                    }
                }
            }
        }
        visit::visit_expr_call(self, c);
    }
}

struct FirstCtor { found: Option<String> }
impl<'ast> Visit<'ast> for FirstCtor {
    fn visit_expr_call(&mut self, c: &'ast syn::ExprCall) {
        if self.found.is_none() {
            if let Expr::Path(p) = &*c.func {
                let segs: Vec<String> = p.path.segments.iter().map(|s| s.ident.to_string()).collect();
                // `Box::new(X::ctor(..))`: look inside; `X::ctor(..)` with X a type name (upper-case initial): found
                if segs.len() >= 2 && segs[segs.len() - 2] != "Box" && segs[segs.len() - 2].chars().next().map(|ch| ch.is_uppercase()).unwrap_or(false) {
                    self.found = Some(segs[segs.len() - 2].clone());
                    return;
                }
            }
        }
        visit::visit_expr_call(self, c);
    }
}

fn main() {
    let args: Vec<String> = std::env::args().collect();
    if args.len() == 5 && args[1] == "dispatch" {
        dispatch_main(&args);
        return;
    }
    if args.len() >= 5 && args[1] == "sites" {
        sites_main(&args);
        return;
    }
    if args.len() != 3 {
        eprintln!("usage: vx <plan.json> <out.json>");
        std::process::exit(2);
    }
    let plan: Value = serde_json::from_str(&std::fs::read_to_string(&args[1]).expect("plan")).expect("plan json");
    let src_root = plan["src_root"].as_str().expect("src_root").to_string();
    let cfg = Cfg {
        eager_methods: plan["eager_methods"]
            .as_array()
            .map(|a| a.iter().map(|v| v.as_str().unwrap().to_string()).collect())
            .unwrap_or_default(),
        eager_iter_receivers: plan["eager_iter_receivers"]
            .as_array()
            .map(|a| a.iter().map(|v| v.as_str().unwrap().to_string()).collect())
            .unwrap_or_default(),
    };
    let mut files: BTreeMap<String, (String, File)> = BTreeMap::new();
    let mut out_items = vec![];
    for it in plan["items"].as_array().expect("items") {
        let file = it["file"].as_str().unwrap().to_string();
        let sel = it["sel"].as_str().unwrap().to_string();
        if !files.contains_key(&file) {
            let path = format!("{}/{}", src_root, file);
            let text = match std::fs::read_to_string(&path) {
                Ok(t) => t,
                Err(e) => die(&format!("cannot read {}: {}", path, e)),
            };
            let parsed = match syn::parse_file(&text) {
                Ok(p) => p,
                Err(e) => die(&format!("cannot parse {}: {}", path, e)),
            };
            files.insert(file.clone(), (text, parsed));
        }
        let (text, parsed) = files.get(&file).unwrap();
        let found = match find_item(parsed, text, &sel) {
            Some(f) => f,
            None => {
                eprintln!("vx: lost anchor: item `{}` not found in {}", sel, file);
                std::process::exit(2);
            }
        };
        let fc = FnCfg {
            partial: it["partial"].as_bool().unwrap_or(false),
            into_as: it["into_as"].as_str().map(|s| s.to_string()),
            slice_before: it["slice_before"].as_str().map(|s| s.to_string()),
            slice_from: it["slice_from"].as_str().map(|s| s.to_string()),
            slice_block: it["slice_block"].as_str().map(|s| s.to_string()),
            frag_name: it["frag_name"].as_str().map(|s| s.to_string()),
            frag_params: it["frag_params"].as_str().map(|s| s.to_string()),
            frag_ret: it["frag_ret"].as_str().map(|s| s.to_string()),
            frag_generics: it["frag_generics"].as_str().map(|s| s.to_string()),
            ret_name: it["ret_name"].as_str().unwrap_or("res").to_string(),
            keep_name: false,
            no_eager_iter: it["no_eager_iter"].as_bool().unwrap_or(false),
            contains_as_loop: it["contains_as_loop"].as_bool().unwrap_or(false),
            helpers: it["helpers"].as_bool().unwrap_or(false),
            vec_receivers: it["vec_receivers"].as_array().map(|a| a.iter().map(|v| v.as_str().unwrap().to_string()).collect()).unwrap_or_default(),
            text_out: it["text_out"].as_bool().unwrap_or(false),
            inline_closures: it["inline_closures"].as_array().map(|a| a.iter().map(|v| v.as_str().unwrap().to_string()).collect()).unwrap_or_default(),
            string_vars: it["string_vars"].as_array().map(|a| a.iter().map(|v| v.as_str().unwrap().to_string()).collect()).unwrap_or_default(),
            eager_receivers: it["eager_receivers"].as_array().map(|a| a.iter().map(|v| v.as_str().unwrap().to_string()).collect()).unwrap_or_default(),
            custom_iters: it["custom_iters"].as_array().map(|a| a.iter().map(|v| v.as_str().unwrap().to_string()).collect()).unwrap_or_default(),
            box_receivers: it["box_receivers"].as_array().map(|a| a.iter().map(|v| v.as_str().unwrap().to_string()).collect()).unwrap_or_default(),
            shared_cells: it["shared_cells"].as_array().map(|a| a.iter().map(|v| v.as_str().unwrap().to_string()).collect()).unwrap_or_default(),
            param_types: it["param_types"].as_array().map(|a| a.iter().filter_map(|v| v.as_str().unwrap().split_once(':').map(|(n, t)| (n.trim().to_string(), t.trim().to_string()))).collect()).unwrap_or_default(),
            field_types: it["field_types"].as_array().map(|a| a.iter().filter_map(|v| v.as_str().unwrap().split_once(':').map(|(n, t)| (n.trim().to_string(), t.trim().to_string()))).collect()).unwrap_or_default(),
            opaque_inits: it["opaque_inits"].as_array().map(|a| a.iter().map(|v| v.as_str().unwrap().to_string()).collect()).unwrap_or_default(),
            opaque_call_shared: it["opaque_call_shared"].as_str().map(|s| s.to_string()),
            opaque_calls: it["opaque_calls"].as_array().map(|a| a.iter().map(|v| v.as_str().unwrap().to_string()).collect()).unwrap_or_default(),
        };
        let opaque_fields: Vec<String> = it["opaque_fields"]
            .as_array()
            .map(|a| a.iter().map(|v| v.as_str().unwrap().to_string()).collect())
            .unwrap_or_default();
        let mut r = R {
            unit_fn: false,
            body_block: None,
            loop_bodies: BTreeSet::new(),
            pending_loop: None,
            loop_sigs: HashMap::new(),
            baseline_loops: it["baseline_loops"]
                .as_array()
                .map(|a| a.iter().map(|v| v.as_str().unwrap().to_string()).collect())
                .unwrap_or_default(),
            bind_tail: None,
            tail_bound: false,
            src: text,
            cfg: &cfg,
            fc: fc.clone(),
            next_id: 0,
            rules: BTreeSet::new(),
            named_closures: HashMap::new(),
            inline_closures: HashMap::new(),
            in_foreach: 0,
        };
        let (span, rendered, name, extra) = match &found.item {
            FoundItem::Fn(sig, block, span) => {
                // signature: from `fn` to the end of the signature
                let (fs, _) = rng(sig.fn_token.span());
                let (_, se) = rng(sig.span());
                let mut sig_edits: Vec<Edit> = vec![];
                let mut name = sig.ident.to_string();
                let mut eager = false;
                // R2a: `-> impl Iterator<Item = X>` becomes `-> Vec<X>` and the function is renamed NAME__eager
                if let ReturnType::Type(_, ty) = &sig.output {
                    let (ts, te) = rng(ty.span());
                    if let Some(item_ty) = impl_iterator_item(ty, text) {
                        eager = true;
                        r.rule("R2a:eager-accessor");
                        let (is, ie) = rng(sig.ident.span());
                        sig_edits.push(Edit { start: is, end: ie, text: format!("{}__eager", name) });
                        name = format!("{}__eager", name);
                        sig_edits.push(Edit {
                            start: ts,
                            end: te,
                            text: format!("({}: Vec<{}>)", fc.ret_name, item_ty),
                        });
                    } else if fc.slice_before.is_some() {
                        sig_edits.push(Edit { start: ts, end: te, text: "()".to_string() });
                    } else {
                        sig_edits.push(Edit {
                            start: ts,
                            end: te,
                            text: format!("({}: {})", fc.ret_name, &text[ts..te]),
                        });
                    }
                }
                // R25: a parameter that is a handle to a shared cell is read as the cell's content
                for inp in sig.inputs.iter() {
                    if let FnArg::Typed(pt) = inp {
                        if let Pat::Ident(pi) = &*pt.pat {
                            if let Some((_, ty)) = fc.param_types.iter().find(|(n, _)| pi.ident == n) {
                                let (ts, te) = rng(pt.ty.span());
                                sig_edits.push(Edit { start: ts, end: te, text: ty.clone() });
                                r.rule("R25:shared-cell-as-content");
                            }
                        }
                    }
                }
                // R7: `&dyn Fn(A) -> B` parameters become generic
                let mut extra_generics = vec![];
                for inp in sig.inputs.iter() {
                    if let FnArg::Typed(pt) = inp {
                        if let Type::Reference(tr) = &*pt.ty {
                            if let Type::TraitObject(to) = &*tr.elem {
                                let b = text[rng(to.bounds.span()).0..rng(to.bounds.span()).1].to_string();
                                if b.starts_with("Fn(") {
                                    let g = format!("F{}", extra_generics.len());
                                    let (ts, te) = rng(tr.elem.span());
                                    sig_edits.push(Edit { start: ts, end: te, text: g.clone() });
                                    extra_generics.push(format!("{}: Fn{}", g, &b[2..]));
                                    r.rule("R7:dyn-Fn->generic");
                                }
                            }
                        }
                    }
                }
                if !extra_generics.is_empty() {
                    let gtext = extra_generics.join(", ");
                    if sig.generics.lt_token.is_some() {
                        let (_, ge) = rng(sig.generics.gt_token.unwrap().span());
                        sig_edits.push(Edit { start: ge - 1, end: ge - 1, text: format!(", {}", gtext) });
                    } else {
                        let (_, ie) = rng(sig.ident.span());
                        sig_edits.push(Edit { start: ie, end: ie, text: format!("<{}>", gtext) });
                    }
                }
                // end of signature text: up to the body brace (includes the where clause)
                let sig_end = match block {
                    Some(b) => rng(b.span()).0,
                    None => se,
                };
                let mut sig_text = apply_edits(text, fs, sig_end, sig_edits);
                for (an, at) in &found.assoc {
                    // R19: `Self::Item` in a signature is the associated type declared by the enclosing impl
                    let pat = format!("Self::{}", an);
                    if sig_text.contains(&pat) {
                        r.rule("R19:assoc-type-resolved");
                        sig_text = sig_text.replace(&pat, at);
                    }
                }
                let vis = match found.kind {
                    "trait-impl" | "trait" => "",
                    _ => "pub ",
                };
                let body_text = match block {
                    None => ";".to_string(),
                    Some(b) => {
                        if eager {
                            // body must be a single tail expression: a pipeline or a call of another eager accessor
                            if b.stmts.len() != 1 {
                                die("eager accessor with more than one statement");
                            }
                            let tail = match &b.stmts[0] {
                                Stmt::Expr(e, None) => e,
                                _ => die("eager accessor without a tail expression"),
                            };
                            if let Some(p) = r.parse_pipeline(tail) {
                                let only_eager = p.stages.is_empty()
                                    && p.sources.len() == 1
                                    && matches!(p.sources[0].kind, SourceKind::Eager);
                                if only_eager {
                                    let t = r.render_expr(tail);
                                    format!("{{ /*@S:__tail__@*/ {} }}", t)
                                } else {
                                    let body = r.gen_pipeline(&p, &Sink::Collect, "__out");
                                    format!(
                                        "{{ let mut __out: Vec<{}> = Vec::new();\n{} /*@S:__tail__@*/ __out }}",
                                        impl_iterator_item(
                                            match &sig.output { ReturnType::Type(_, t) => t, _ => unreachable!() },
                                            text
                                        )
                                        .unwrap(),
                                        body
                                    )
                                }
                            } else {
                                die("eager accessor body is not a recognised pipeline");
                            }
                        } else {
                            // R11 (nested): the statements are taken from the body of a loop / if statement of the function body
                            let mut b: &Block = b;
                            if let Some(pref) = &fc.slice_block {
                                let mut found_block: Option<&Block> = None;
                                for st in &b.stmts {
                                    if let Stmt::Local(l) = st {
                                        // R11 (closure): the body of the first closure in the initialiser of a `let`
                                        if !norm(&text[rng(l.span()).0..rng(l.span()).1]).starts_with(norm(pref).as_str()) { continue; }
                                        if let Some(init) = &l.init {
                                            found_block = first_closure_block(&init.expr);
                                        }
                                        break;
                                    }
                                    let e = match st { Stmt::Expr(e, _) => e, _ => continue };
                                    if !norm(&text[rng(e.span()).0..rng(e.span()).1]).starts_with(norm(pref).as_str()) { continue; }
                                    found_block = match e {
                                        Expr::ForLoop(f) => Some(&f.body),
                                        Expr::While(w) => Some(&w.body),
                                        Expr::Loop(l) => Some(&l.body),
                                        Expr::If(i) => Some(&i.then_branch),
                                        // R11 (closure): the body of the first closure among the arguments of a call statement
                                        other => first_closure_block(other),
                                    };
                                    if let (Some(ib), false) = (found_block, matches!(e, Expr::If(_))) {
                                        // the statements of a loop body keep the loop-body reading of `continue` (R15)
                                        r.loop_bodies.insert(rng(ib.span()));
                                    }
                                    break;
                                }
                                match found_block {
                                    Some(ib) => { b = ib; r.rule("R11:fragment-of-nested-block"); }
                                    None => {
                                        eprintln!("vx: lost anchor: no loop/if statement starting with `{}` in {}", pref, sel);
                                        std::process::exit(2);
                                    }
                                }
                            }
                            // a sliced closure body that ends in an expression and whose fragment declares a bare return type
                            // (`frag_ret=: T`) returns that expression
                            let closure_value = fc.slice_block.is_some() && fc.slice_before.is_none()
                                && fc.frag_ret.as_ref().map(|rt| rt.trim_start().starts_with(':')).unwrap_or(false)
                                && matches!(b.stmts.last(), Some(Stmt::Expr(_, None)));
                            if (matches!(&sig.output, ReturnType::Type(..)) && fc.slice_before.is_none() && fc.slice_block.is_none()) || closure_value {
                                r.bind_tail = Some(rng(b.span()));
                            }
                            r.body_block = Some(rng(b.span()));
                            r.unit_fn = (matches!(&sig.output, ReturnType::Default) || fc.slice_block.is_some()) && !closure_value;
                            let inner = r.render_block_inner(b);
                            if r.tail_bound {
                                format!("{{ /*@BEGIN@*/{} }}", inner)
                            } else {
                                format!("{{ /*@BEGIN@*/{} /*@END@*/ }}", inner)
                            }
                        }
                    }
                };
                // R26: `mut self` (unsupported by the verifier) is `self` moved into a mutable local of the body
                let mut sig_text = sig_text;
                let mut body_text = body_text;
                let has_mut_self = sig.inputs.iter().any(|i| matches!(i, FnArg::Receiver(rc) if rc.mutability.is_some() && rc.reference.is_none()));
                if has_mut_self && block.is_some() {
                    r.rule("R26:mut-self-as-local");
                    if let Some(pos) = sig_text.find("mut self") {
                        sig_text.replace_range(pos..pos + "mut self".len(), "self");
                    }
                    body_text = rename_self_outside_markers(&body_text);
                    if let Some(pos) = body_text.find("/*@BEGIN@*/") {
                        body_text.insert_str(pos, "let mut __self = self; ");
                    }
                }
                let (full, name) = if let Some(fname) = &fc.frag_name {
                    // R11: the kept statements as a function of their declared free variables
                    let params = fc.frag_params.clone().unwrap_or_default();
                    let (ret_sig, ret_tail) = match &fc.frag_ret {
                        Some(rt) => {
                            let (v, t) = rt.split_once(':').unwrap_or((rt.as_str(), "()"));
                            (format!(" -> ({}: {})", fc.ret_name, t.trim()), format!(" {} ", v.trim()))
                        }
                        None => (String::new(), String::new()),
                    };
                    let body_inner = body_text.trim();
                    let body_inner = &body_inner[1..body_inner.len() - 1];
                    // a fragment of a generic function declares the type parameters it uses: `frag_generics=<T: LabelType>`
                    let generics = fc.frag_generics.clone().unwrap_or_default();
                    (
                        format!("{}fn {}{}({}){} /*@SIG@*/ {{ {} {} }}", vis, fname, generics, params, ret_sig, body_inner, ret_tail),
                        fname.clone(),
                    )
                } else {
                    (format!("{}{} /*@SIG@*/ {}", vis, sig_text.trim_end(), body_text), name)
                };
                (*span, full, name, json!({"has_body": block.is_some()}))
            }
            FoundItem::Struct(s) => {
                let mut t = String::new();
                let (gs, ge) = (rng(s.ident.span()).1, 0usize);
                let _ = (gs, ge);
                let generics = text[rng(s.generics.span()).0..rng(s.generics.span()).1].to_string();
                let wh = s
                    .generics
                    .where_clause
                    .as_ref()
                    .map(|w| text[rng(w.span()).0..rng(w.span()).1].to_string())
                    .unwrap_or_default();
                t.push_str(&format!("pub struct {}{}", s.ident, generics));
                match &s.fields {
                    Fields::Named(n) => {
                        t.push_str(&format!(" {} {{\n", wh));
                        for f in &n.named {
                            let fname = f.ident.as_ref().unwrap().to_string();
                            let ty = if opaque_fields.contains(&fname) {
                                r.rule("R10:opaque-field");
                                "Opaque".to_string()
                            } else if let Some((_, t)) = fc.field_types.iter().find(|(n, _)| *n == fname) {
                                r.rule("R25:shared-cell-as-content");
                                t.clone()
                            } else {
                                text[rng(f.ty.span()).0..rng(f.ty.span()).1].to_string()
                            };
                            t.push_str(&format!("    pub {}: {},\n", fname, ty));
                        }
                        t.push_str("}\n");
                    }
                    Fields::Unnamed(u) => {
                        let mut parts = vec![];
                        for (i, f) in u.unnamed.iter().enumerate() {
                            let ty = if opaque_fields.contains(&i.to_string()) {
                                r.rule("R10:opaque-field");
                                "Opaque".to_string()
                            } else {
                                text[rng(f.ty.span()).0..rng(f.ty.span()).1].to_string()
                            };
                            parts.push(format!("pub {}", ty));
                        }
                        t.push_str(&format!("({}) {};\n", parts.join(", "), wh));
                    }
                    Fields::Unit => {
                        t.push_str(&format!(" {};\n", wh));
                        // R27: `#[derive(Default)]` on a unit struct, written out (derive attributes are dropped by the extraction)
                        let derives_default = s.attrs.iter().any(|a| a.path().is_ident("derive") && text[rng(a.span()).0..rng(a.span()).1].contains("Default"));
                        if derives_default && s.generics.params.is_empty() {
                            r.rule("R27:derive-default-unit-struct");
                            t.push_str(&format!("impl Default for {id} {{ fn default() -> (res: {id}) {{ {id} }} }}\n", id = s.ident));
                        }
                    }
                }
                let derives: Vec<String> = s
                    .attrs
                    .iter()
                    .filter(|a| a.path().is_ident("derive"))
                    .map(|a| norm(&text[rng(a.span()).0..rng(a.span()).1]))
                    .collect();
                (s.span(), t, s.ident.to_string(), json!({"derives": derives}))
            }
            FoundItem::Enum(s) => {
                let mut t = String::new();
                let generics = text[rng(s.generics.span()).0..rng(s.generics.span()).1].to_string();
                t.push_str(&format!("pub enum {}{} {{\n", s.ident, generics));
                for v in &s.variants {
                    t.push_str(&format!("    {},\n", &text[rng(v.span()).0..rng(v.span()).1]));
                }
                t.push_str("}\n");
                let derives: Vec<String> = s
                    .attrs
                    .iter()
                    .filter(|a| a.path().is_ident("derive"))
                    .map(|a| norm(&text[rng(a.span()).0..rng(a.span()).1]))
                    .collect();
                (s.span(), t, s.ident.to_string(), json!({"derives": derives}))
            }
            FoundItem::TypeAlias(s) => {
                let (a, b) = rng(s.type_token.span());
                let _ = b;
                let (_, e) = rng(s.span());
                (s.span(), format!("pub {}", &text[a..e]), s.ident.to_string(), json!({}))
            }
        };
        let (rendered, n_loops, n_closures, loop_sigs) = renumber(&rendered, &r.loop_sigs, &r.baseline_loops);
        let (a, b) = rng(span);
        out_items.push(json!({
            "file": file,
            "sel": sel,
            "kind": found.kind,
            "name": name,
            "container": found.container,
            "line_start": line_of(text, a),
            "line_end": line_of(text, b),
            "original": &text[a..b],
            "span_start": a,
            "span_end": b,
            "text": rendered,
            "n_loops": n_loops,
            "n_closures": n_closures,
            "loop_sigs": loop_sigs,
            "rules": r.rules.iter().cloned().collect::<Vec<_>>(),
            "extra": extra,
        }));
    }
    std::fs::write(&args[2], serde_json::to_string_pretty(&json!({"items": out_items})).unwrap()).expect("write out");
}
