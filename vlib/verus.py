"""Runs Verus on the generated file and turns its output into per-obligation verdicts."""
import json, os, re, subprocess, time

SEMANTIC = [
    "postcondition not satisfied",
    "precondition not satisfied",
    "precondition not met",
    "assertion failed",
    "assertion failure",
    "invariant not satisfied",
    "possible arithmetic underflow/overflow",
    "possible division by zero",
    "decreases not satisfied",
    "could not show termination",
    "unreachable",
    "index out of bounds",
    "possible bit shift underflow/overflow",
    "cannot show invariant holds",
    "failed to prove",
    "call to non-static",
    "recommendation not met",
    "unable to prove",
]

def is_semantic(msg):
    m = msg.lower()
    return any(s in m for s in SEMANTIC)

class Result:
    def __init__(self):
        self.ok = False               # verus ran to completion and produced verification results
        self.compile_error = None     # text if front-end error
        self.functions = {}           # name -> {"success": bool, "time_ms": .., "rlimit": ..}
        self.errors = []              # list of {"msg","line","text","semantic","rlimit"}
        self.verified = 0
        self.n_errors = 0
        self.cmd = ""
        self.wall_s = 0.0
        self.smt_ms = 0
        self.stderr = ""
        self.version = ""

ERR_HEAD = re.compile(r'^(error|warning|note)(\[E\d+\])?: (.*)$')
LOC = re.compile(r'^\s*--> (.*?):(\d+):(\d+)')

def parse_stderr(text):
    blocks = []
    cur = None
    for line in text.split("\n"):
        m = ERR_HEAD.match(line)
        if m:
            if cur:
                blocks.append(cur)
            cur = {"level": m.group(1), "code": m.group(2), "msg": m.group(3), "line": None, "text": [line]}
            continue
        if cur is not None:
            cur["text"].append(line)
            lm = LOC.match(line)
            if lm and cur["line"] is None:
                cur["line"] = int(lm.group(2))
    if cur:
        blocks.append(cur)
    gutter = re.compile(r'^\s*(\d+) \|')
    for b in blocks:
        # a postcondition stated on a trait method is reported at the trait; the failing body is the one labelled
        # "at the end of the function body" / "at this exit"
        last = None
        b["body_line"] = None
        for l in b["text"]:
            g = gutter.match(l)
            if g:
                last = int(g.group(1))
            if ('at the end of the function body' in l or 'at this exit' in l) and last is not None and b["body_line"] is None:
                b["body_line"] = last
        b["text"] = "\n".join(b["text"]).rstrip()
    return blocks

def run(path, modules, rlimit=None, threads=16, seed=None, timeout=1500, extra=None):
    cmd = ["verus", path, "--output-json", "--time", "--num-threads", str(threads), "--multiple-errors", "4"]
    for m in modules:
        cmd += ["--verify-module", m]
    if rlimit:
        cmd += ["--rlimit", str(rlimit)]
    if seed is not None:
        cmd += ["--smt-option", "smt.random_seed=%d" % seed]
    if extra:
        cmd += extra
    r = Result()
    r.cmd = " ".join(cmd)
    t0 = time.time()
    try:
        p = subprocess.run(cmd, capture_output=True, text=True, timeout=timeout, cwd=os.path.dirname(path))
    except subprocess.TimeoutExpired:
        r.compile_error = "verus timed out after %ds" % timeout
        return r
    r.wall_s = time.time() - t0
    r.stderr = p.stderr
    try:
        j = json.loads(p.stdout)
    except Exception:
        r.compile_error = "no JSON from verus:\n" + p.stderr[-4000:]
        return r
    r.version = j.get("verus", {}).get("version", "")
    vr = j.get("verification-results", {})
    blocks = parse_stderr(p.stderr)
    if vr.get("encountered-vir-error") or "verified" not in vr:
        r.compile_error = "\n".join(b["text"] for b in blocks if b["level"] == "error")[:6000] or p.stderr[-4000:]
        return r
    r.ok = True
    r.verified = vr.get("verified", 0)
    r.n_errors = vr.get("errors", 0)
    smt = j.get("times-ms", {}).get("smt", {})
    r.smt_ms = smt.get("smt-run", 0)
    for mt in smt.get("smt-run-module-times", []):
        for fb in mt.get("function-breakdown", []):
            name = fb["function"]
            prev = r.functions.get(name)
            ent = {"success": fb["success"], "time_ms": fb.get("time", 0), "rlimit": fb.get("rlimit", 0),
                   "mode": fb.get("mode:", fb.get("mode", ""))}
            if prev:
                ent["success"] = ent["success"] and prev["success"]
                ent["time_ms"] += prev["time_ms"]
            r.functions[name] = ent
    for b in blocks:
        if b["level"] != "error":
            continue
        if b["msg"].startswith("aborting due to"):
            continue
        rl = "resource limit" in b["msg"].lower() or "rlimit" in b["msg"].lower()
        r.errors.append({"msg": b["msg"], "line": b.get("body_line") or b["line"], "clause_line": b["line"], "text": b["text"],
                         "semantic": is_semantic(b["msg"]) and not rl, "rlimit": rl, "code": b["code"]})
    if any(e["code"] for e in r.errors) and not r.functions:
        r.ok = False
        r.compile_error = "\n".join(e["text"] for e in r.errors)[:6000]
    return r
