"""Assembles the generated Verus file: runs vx on /repo/src, weaves the contracts of the vspec
files into the extracted text, and keeps a line map back to the items."""
import hashlib, json, os, re, subprocess, sys

from . import vspec

VERIF = os.path.dirname(os.path.dirname(os.path.abspath(__file__)))
VX = os.path.join(VERIF, 'tools', 'vx', 'target', 'release', 'vx')
REPO = os.environ.get('VERIF_REPO', '/repo')

EAGER_METHODS = ["iter_attacks", "iter_attacks_to", "iter_attacks_from", "iter_attacks_from_id"]
EAGER_ITER_RECEIVERS = ["argument_set()", "self.0", "self.arguments", "assignment"]

USE_BASELINE_LOOPS = True

class Undecided(Exception):
    """exit 2: the machinery cannot decide (never an alarm)."""
    pass

def closure(units, names):
    order = []
    def visit(n):
        if n in order:
            return
        if n not in units:
            raise Undecided("unknown unit %s" % n)
        for d in units[n].deps:
            visit(d)
        order.append(n)
    for n in names:
        visit(n)
    return order

def item_key(e):
    k = "%s :: %s" % (e.file, e.sel)
    if 'frag_name' in e.opts:
        k += "[%s]" % e.opts['frag_name']
    return k

def run_vx(unit_list, units, workdir):
    items = []
    index = []
    for un in unit_list:
        for e in units[un].entries:
            if isinstance(e, vspec.Item):
                for dk, dv in units[un].defaults.items():
                    e.opts.setdefault(dk, dv)
                it = {"file": e.file, "sel": e.sel}
                if e.opts.get('partial'):
                    it['partial'] = True
                if e.opts.get('no_eager_iter'):
                    it['no_eager_iter'] = True
                if e.opts.get('contains_as_loop'):
                    it['contains_as_loop'] = True
                if e.opts.get('helpers'):
                    it['helpers'] = True
                if e.opts.get('text_out'):
                    it['text_out'] = True
                if 'vec_receivers' in e.opts:
                    it['vec_receivers'] = e.opts['vec_receivers'].split(',')
                for k in ('into_as', 'slice_before', 'ret_name', 'slice_from', 'slice_block', 'frag_name', 'frag_params', 'frag_ret', 'frag_generics', 'opaque_call_shared'):
                    if k in e.opts:
                        it[k] = e.opts[k]
                if 'opaque_fields' in e.opts:
                    it['opaque_fields'] = e.opts['opaque_fields'].split(',')
                for k in ('custom_iters', 'box_receivers', 'shared_cells', 'param_types', 'field_types', 'opaque_inits', 'opaque_calls', 'eager_receivers', 'inline_closures', 'string_vars'):
                    if k in e.opts:
                        it[k] = [x.strip() for x in e.opts[k].split(',')]
                bl = (shapes().get(item_key(e)) or {}).get('loops')
                if bl and USE_BASELINE_LOOPS:
                    it['baseline_loops'] = bl
                items.append(it)
                index.append((un, e))
    plan = {"src_root": os.path.join(REPO, 'src'), "eager_methods": EAGER_METHODS,
            "eager_iter_receivers": EAGER_ITER_RECEIVERS, "items": items}
    os.makedirs(workdir, exist_ok=True)
    pj = os.path.join(workdir, 'plan.json')
    oj = os.path.join(workdir, 'extracted.json')
    with open(pj, 'w') as f:
        json.dump(plan, f, indent=1)
    if not os.path.exists(VX):
        raise Undecided("vx is not built (run MANIFEST.setup_cmd)")
    p = subprocess.run([VX, pj, oj], capture_output=True, text=True)
    if p.returncode != 0:
        raise Undecided("extractor refused: " + p.stderr.strip())
    with open(oj) as f:
        out = json.load(f)['items']
    res = {}
    for (un, e), o in zip(index, out):
        res[id(e)] = o
    return res

def lcp(a, b):
    n = 0
    for x, y in zip(a, b):
        if x != y:
            break
        n += 1
    return n

def fuzzy_pick(cands, prefix):
    """cands: [(text, pos)]. The one statement whose text shares the longest beginning with the anchor, if that beginning is
    at least 70% of the anchor (and 8 characters) and no other statement shares as much: the anchor statement itself, edited."""
    scored = sorted(((lcp(t, prefix), pos) for t, pos in cands), reverse=True)
    if not scored:
        return None
    best = scored[0]
    if best[0] < max(8, int(0.7 * len(prefix))):
        return None
    if len(scored) > 1 and scored[1][0] == best[0]:
        return None
    return best[1]

def find_stmt_marker(text, prefix, nth, what):
    # markers: /*@S:<normalized statement text>@*/
    pos = []
    allm = []
    for m in re.finditer(r'/\*@[SM]:(.*?)@\*/', text):
        allm.append((m.group(1), m.start()))
        if m.group(1).startswith(prefix):
            pos.append(m.start())
    if nth is None:
        if len(pos) == 0:
            p = fuzzy_pick(allm, prefix)
            if p is not None:
                REANCHORED.append("ADAPTED %s: the statement %r was edited; the hint anchored at it stays with it" % (what, prefix))
                return p
        if len(pos) != 1:
            raise Undecided("lost anchor: %s: statement starting with %r matches %d places" % (what, prefix, len(pos)))
        return pos[0]
    if nth >= len(pos):
        raise Undecided("lost anchor: %s: statement starting with %r #%d not found" % (what, prefix, nth))
    return pos[nth]

SHAPES_PATH = os.path.join(VERIF, 'specs', 'baseline_shapes.json')
_shapes = None
REANCHORED = []

def shapes():
    global _shapes
    if _shapes is None:
        try:
            with open(SHAPES_PATH) as f:
                _shapes = json.load(f)
        except Exception:
            _shapes = {}
    return _shapes

def markers_of(text):
    return [m.group(1) for m in re.finditer(r'/\*@[SM]:(.*?)@\*/', text)]

def closure_headers_of(text):
    out = []
    for m in re.finditer(r'/\*@CLS:(\d+):BEGIN@\*/(.*?)/\*@CLS:\1:END@\*/', text, re.S):
        k = int(m.group(1))
        while len(out) <= k:
            out.append('')
        out[k] = re.sub(r'\s+', ' ', m.group(2)).strip()
    return out

def rule_markers_of(text):
    """markers emitted by a rewriting rule (R5, format! capture, closure bodies): they exist only where the rule applied"""
    return [m.group(1) for m in re.finditer(r'/\*@M:(.*?)@\*/', text)]

def fallback_anchor(text, what, prefix, nth):
    """the anchored statement no longer exists (deleted or reshaped): attach the hint before the next statement of the
    baseline statement sequence that still exists, else at the end of the body"""
    base = (shapes().get(what) or {}).get('stmts')
    if not base:
        return None
    if any(t.startswith(prefix) for t in (shapes().get(what) or {}).get('rule_markers', [])):
        # the anchor was a marker of a rewriting rule that no longer applies here: the hint is moot
        return None
    idxs = [i for i, t in enumerate(base) if t.startswith(prefix)]
    if not idxs:
        return None
    k = idxs[0] if nth is None else (idxs[nth] if nth < len(idxs) else None)
    if k is None:
        return None
    cur = markers_of(text)
    for t in base[k + 1:]:
        if cur.count(t) == 1 and base.count(t) == 1:
            p = text.find('/*@S:%s@*/' % t)
            if p < 0:
                p = text.find('/*@M:%s@*/' % t)
            if p >= 0:
                return p
    p = text.find('/*@END@*/')
    return p if p >= 0 else None

def weave(item, ext):
    text = ext['text']
    what = item_key(item)
    shape_key = what
    for kind, arg, body in item.parts:
        body = body.rstrip()
        if not body.strip():
            continue
        if kind == 'sig':
            if '/*@SIG@*/' not in text:
                raise Undecided("lost anchor: %s: no signature marker" % what)
            text = text.replace('/*@SIG@*/', '\n' + body + '\n', 1)
        elif kind == 'begin':
            if '/*@BEGIN@*/' not in text:
                raise Undecided("lost anchor: %s: no begin marker" % what)
            text = text.replace('/*@BEGIN@*/', '\n' + body + '\n', 1)
        elif kind == 'end':
            if '/*@END@*/' not in text:
                raise Undecided("lost anchor: %s: no end marker" % what)
            text = text.replace('/*@END@*/', '\n' + body + '\n', 1)
        elif kind in ('loop', 'pre', 'top', 'bot', 'post'):
            tag = {'loop': 'INV', 'pre': 'PRE', 'top': 'TOP', 'bot': 'BOT', 'post': 'POST'}[kind]
            mk = '/*@%s:%d@*/' % (tag, arg)
            if mk not in text:
                if USE_BASELINE_LOOPS and (shapes().get(shape_key) or {}).get('loops'):
                    # the loop the invariant / hint was written for no longer exists (the function was restructured): the piece
                    # is moot; the function's own contract still has to hold for whatever replaced the loop
                    REANCHORED.append("%s: loop %d no longer exists, its woven %s was dropped" % (what, arg, kind))
                    continue
                raise Undecided("lost anchor: %s: no loop %d (function shape changed)" % (what, arg))
            if USE_BASELINE_LOOPS and kind == 'loop':
                bl = (shapes().get(shape_key) or {}).get('loops') or []
                cl = ext.get('loop_sigs') or []
                if arg < len(bl) and arg < len(cl) and bl[arg] != cl[arg]:
                    REANCHORED.append("%s: loop %d is not the loop its invariant was written for (now %r, was %r)" % (what, arg, cl[arg], bl[arg]))
            if kind == 'bot':
                # a closure body turned loop body may end in an expression statement without `;` (`v[i] = true`)
                before = re.sub(r'/\*@.*?@\*/', '', text[:text.find(mk)][-400:]).rstrip()
                if before and before[-1] not in ';{}':
                    body = ';\n' + body
            text = text.replace(mk, '\n' + body + '\n', 1)
        elif kind == 'closure':
            b = '/*@CLS:%d:BEGIN@*/' % arg
            e = '/*@CLS:%d:END@*/' % arg
            i = text.find(b)
            j = text.find(e)
            if i < 0 or j < 0:
                # the closure the contract was written for no longer exists: the contract is moot, the function's own
                # contract still has to hold
                REANCHORED.append("%s: closure %d no longer exists, its woven contract was dropped" % (what, arg))
                continue
            base_cl = (shapes().get(shape_key) or {}).get('closures') or []
            cur_header = re.sub(r'\s+', ' ', text[i + len(b):j]).strip()
            if USE_BASELINE_LOOPS and arg < len(base_cl) and base_cl[arg] and base_cl[arg] != cur_header:
                # the closure's parameters were renamed: the woven contract follows the new names (same number of simple
                # parameters); any other change of the parameter list leaves the contract as written (a type error then
                # makes the run undecided)
                def names(h):
                    m = re.match(r'^(?:move\s*)?\|(.*)\|\s*(?:->.*)?$', h)
                    if not m:
                        return None
                    out = []
                    for part in m.group(1).split(','):
                        nm = part.split(':')[0].strip()
                        nm = re.sub(r'^(mut|&)\s*', '', nm)
                        if not re.match(r'^[A-Za-z_][A-Za-z0-9_]*$', nm):
                            return None
                        out.append(nm)
                    return out
                old_n, new_n = names(base_cl[arg]), names(cur_header)
                if old_n and new_n and len(old_n) == len(new_n) and old_n != new_n:
                    for o_, n_ in zip(old_n, new_n):
                        if o_ != n_:
                            body = re.sub(r'(?<![A-Za-z0-9_])%s(?![A-Za-z0-9_])' % re.escape(o_), n_, body)
                    REANCHORED.append("ADAPTED %s: closure %d: parameters renamed %s -> %s, the woven contract follows" % (what, arg, old_n, new_n))
            text = text[:i] + body + text[j + len(e):]
        elif kind == 'type':
            mk = '/*@TY:%s@*/' % arg
            if mk not in text:
                # the `let` is gone or carries its own type annotation now: the woven annotation is moot
                REANCHORED.append("ADAPTED %s: no un-annotated `let %s` any more, the woven type annotation is moot" % (what, arg))
                continue
            text = text.replace(mk, ' ' + body.strip() + ' ', 1)
        elif kind == 'after':
            prefix, nth = arg
            alle = [(m.group(1), m.end()) for m in re.finditer(r'/\*@E:(.*?)@\*/', text)]
            pos = [e_ for t_, e_ in alle if t_.startswith(prefix)]
            if nth is None and len(pos) == 0:
                fp = fuzzy_pick(alle, prefix)
                if fp is not None:
                    REANCHORED.append("ADAPTED %s: the statement %r was edited; the hint anchored after it stays with it" % (what, prefix))
                    pos = [fp]
            if (nth is None and len(pos) != 1) or (nth is not None and nth >= len(pos)):
                REANCHORED.append("%s: hint anchored after %r has no place any more and was dropped" % (what, prefix))
                continue
            p = pos[0] if nth is None else pos[nth]
            text = text[:p] + '\n' + body + '\n' + text[p:]
        elif kind == 'at':
            prefix, nth = arg
            try:
                p = find_stmt_marker(text, prefix, nth, what)
            except Undecided:
                p = fallback_anchor(text, what, prefix, nth)
                if p is None:
                    REANCHORED.append("%s: hint anchored at %r has no place any more and was dropped" % (what, prefix))
                    continue
                REANCHORED.append("%s: hint anchored at %r re-attached to the next surviving statement" % (what, prefix))
            text = text[:p] + '\n' + body + '\n' + text[p:]
    return text

def sha(s):
    return hashlib.sha256(s.encode()).hexdigest()

PRELUDE = """// GENERATED by /verif/vlib/assemble.py from /repo/src -- do not edit
#![feature(allocator_api)]
#![feature(pattern)]
#![allow(unused_imports, unused_variables, unused_mut, unused_braces, unused_parens, dead_code, non_snake_case, unused_assignments, redundant_semicolons)]
use vstd::prelude::*;
verus! {
// the crate is verified for 64-bit targets (usize/isize are 64 bits wide)
global size_of usize == 8;
"""

def assemble(unit_names, workdir, repo=None):
    """returns (path of generated file, meta)"""
    global REPO
    if repo:
        REPO = repo
    units = vspec.load_all(os.path.join(VERIF, 'specs', 'units'))
    order = closure(units, unit_names)
    ext = run_vx(order, units, workdir)
    del REANCHORED[:]
    lines = []
    linemap = []   # (first_line, last_line, unit, item-or-None description)
    functions = []

    def emit(text, unit, desc):
        start = len(lines) + 1
        for l in text.split("\n"):
            lines.append(l)
        linemap.append((start, len(lines), unit, desc))

    emit(PRELUDE, None, None)
    theories = []
    for un in order:
        for t in units[un].theory:
            if t not in theories:
                theories.append(t)
    for t in theories:
        with open(os.path.join(VERIF, 'specs', 'theory', t)) as f:
            emit(f.read(), 'theory:' + t, None)
    for un in order:
        u = units[un]
        emit("pub mod %s {\nuse vstd::prelude::*;\n" % un, un, None)
        open_container = None
        roots = []
        for e in u.entries:
            if isinstance(e, vspec.Verbatim):
                if getattr(e, 'root', False):
                    roots.append(e)
                    continue
                if e.inside:
                    if open_container is None:
                        raise Undecided("%s:%d: //@ inside without an open impl/trait block" % (u.path, e.line))
                    emit(e.text, un, "verbatim@%s:%d" % (os.path.basename(u.path), e.line))
                    continue
                if open_container is not None:
                    emit("}\n", un, None)
                    open_container = None
                emit(e.text, un, "verbatim@%s:%d" % (os.path.basename(u.path), e.line))
                continue
            o = ext[id(e)]
            cont = o['container']
            if 'container' in e.opts:
                cont = '' if e.opts['container'] in ('none', True) else e.opts['container']
            if cont != (open_container or ''):
                if open_container is not None:
                    emit("}\n", un, None)
                    open_container = None
                if cont:
                    header = cont
                    if header.startswith('trait '):
                        header = 'pub ' + header
                    emit(header + " {\n", un, None)
                    open_container = cont
            text = weave(e, o)
            if o['kind'] == 'trait-impl' and 'container' in e.opts and ' for ' not in str(e.opts['container']) \
                    and text.lstrip().startswith('fn '):
                # a trait method re-homed into an inherent impl keeps the visibility it had through the trait
                text = 'pub ' + text.lstrip()
            if 'attr' in e.opts:
                # a verifier attribute on an extracted type (ignored by rustc)
                text = str(e.opts['attr']) + "\n" + text
            desc = {"unit": un, "file": 'src/' + o['file'], "sel": o['sel'], "name": o['name'],
                    "line_start": o['line_start'], "line_end": o['line_end'],
                    "sha256": sha(o['original']), "rules": o['rules'], "kind": o['kind'],
                    "n_loops": o['n_loops'], "n_closures": o['n_closures'],
                    "under_contract": any(k == 'sig' and b.strip() for k, a, b in e.parts),
                    "frag": e.opts.get('frag_name')}
            functions.append(desc)
            emit(text, un, desc)
        if open_container is not None:
            emit("}\n", un, None)
        emit("} // mod %s\n" % un, un, None)
        for e in roots:
            emit(e.text, un, "root@%s:%d" % (os.path.basename(u.path), e.line))
    emit("} // verus!\nfn main() {}\n", None, None)
    path = os.path.join(workdir, 'gen.rs')
    with open(path, 'w') as f:
        f.write("\n".join(lines))
    shape_now = {}
    for un in order:
        for e in units[un].entries:
            if isinstance(e, vspec.Item):
                shape_now[item_key(e)] = {"stmts": markers_of(ext[id(e)]['text']),
                                                          "rule_markers": rule_markers_of(ext[id(e)]['text']),
                                                          "closures": closure_headers_of(ext[id(e)]['text']),
                                                          "loops": ext[id(e)].get('loop_sigs', [])}
    meta = {"units": order, "linemap": linemap, "items": functions, "path": path, "shapes": shape_now,
            "reanchored": list(REANCHORED)}
    return path, meta

if __name__ == '__main__':
    USE_BASELINE_LOOPS = False
    p, meta = assemble(sys.argv[1:], os.path.join(VERIF, 'build', 'manual'))
    print(p)
