"""Obligations discharged by a back end other than Verus: syntactic call-site obligations (C17)
and Kani harnesses over loop-free leaf functions (full-domain symbolic inputs => complete proofs)."""
import json, os, subprocess, time
from . import assemble, kani

def fixed_replays(pid, repo):
    """regression guard for repaired defects: the failing input of every finding recorded as `fixed` for this property is
    replayed on the real code of the tree under check (binaries of /verif/replay, which exit 1 when the defect shows)"""
    if os.path.abspath(repo) != '/repo' and not os.environ.get('VX_REPLAY_GUARD'):
        # scratch copies (seed / benign / self-test tabulation) skip the replays unless asked: each one would compile the crate anew
        return []
    kf = json.load(open(os.path.join(assemble.VERIF, 'known_findings.json')))
    res = []
    env = dict(os.environ, CARGO_NET_OFFLINE='true')
    for k in kf.get('findings', []):
        if k.get('status') != 'fixed' or k.get('property') != pid or not k.get('replay'):
            continue
        binname = os.path.splitext(os.path.basename(k['replay']))[0]
        t0 = time.time()
        rc, out = kani.run_replay_rc(binname, [], repo, env)
        name = "replay::%s" % binname
        if rc is None:
            res.append({"name": name, "backend": "replay on the real code", "status": "undecided", "detail": out, "cmd": None})
        else:
            res.append({"name": name, "backend": "replay on the real code", "status": "ok" if rc == 0 else "fail",
                        "msg": "the failing input of a repaired defect fails again",
                        "detail": "%s (%s): %s" % (k['id'], k.get('commit', ''), out[-600:]),
                        "counterexample": {"finding": k['id'], "input": "the input built in %s" % k['replay']} if rc != 0 else None,
                        "replay": out[-1200:] if rc != 0 else None,
                        "cmd": "cargo run --release --offline --bin %s  (in /verif/replay, against the tree under check)" % binname,
                        "time_ms": int((time.time() - t0) * 1000)})
    return res

def run(pid, cfg, repo, work, tier):
    out = fixed_replays(pid, repo)
    for x in cfg.get('extra', []):
        if x['kind'] == 'sat_sites':
            out += sat_sites(repo, work, x)
        elif x['kind'] == 'dispatch':
            out += dispatch(repo, work, x)
        elif x['kind'] == 'encoder_dispatch':
            out += encoder_dispatch(repo, work, x)
        elif x['kind'] == 'kani':
            out += kani.run(repo, work, x, tier)
    return out

def sat_sites(repo, work, x):
    oj = os.path.join(work, 'sites.json')
    cmd = [assemble.VX, 'sites', os.path.join(repo, 'src'), oj] + x['dirs']
    t0 = time.time()
    p = subprocess.run(cmd, capture_output=True, text=True)
    if p.returncode != 0:
        raise assemble.Undecided("call-site scan failed: " + p.stderr.strip())
    sites = json.load(open(oj))['sites']
    if not sites:
        raise assemble.Undecided("vacuity guard: no SAT call site found under %s" % x['dirs'])
    res = []
    counts = {}
    for s in sites:
        key = "%s::%s" % (s['file'], s['function'])
        k = counts.get(key, 0)
        counts[key] = k + 1
        name = "sat_sites::%s#%d" % (key, k)
        res.append({"name": name, "backend": "syntactic(vx sites)",
                    "status": {"ok": "ok", "fail": "fail"}.get(s['status'], 'undecided'),
                    "msg": s['why'],
                    "detail": "src/%s:%d in fn %s: `%s` -- %s" % (s['file'], s['line'], s['function'], s['text'], s['why']),
                    "cmd": " ".join(cmd), "time_ms": int((time.time() - t0) * 1000 / max(1, len(sites)))})
    for r in res[1:]:
        r['cmd'] = None
    return res


KNOWN_SOLVERS = ["GroundedSemanticsSolver", "CompleteSemanticsSolver", "PreferredSemanticsSolver", "StableSemanticsSolver",
                 "SemiStableSemanticsSolver", "StageSemanticsSolver", "IdealSemanticsSolver"]

def dispatch(repo, work, x):
    """syntactic obligations on the command line's dispatch (src/app/solve_command.rs): for the query handled by x['function'],
    each semantics must be given to a solver type whose contract (or, for the types not under contract, whose documented
    semantics) answers that query for that semantics -- x['allowed'][SEM] lists them. One obligation per semantics; a shape
    the scan does not understand, or a solver type it does not know, is undecided, never a violation."""
    import re
    oj = os.path.join(work, 'dispatch.json')
    cmd = [assemble.VX, 'dispatch', os.path.join(repo, 'src'), oj, x['file']]
    t0 = time.time()
    p = subprocess.run(cmd, capture_output=True, text=True)
    if p.returncode != 0:
        raise assemble.Undecided("dispatch scan failed: " + p.stderr.strip())
    tables = [t for t in json.load(open(oj))['tables'] if t['function'] == x['function']]
    if len(tables) != 1:
        raise assemble.Undecided("dispatch scan: %d dispatch tables in fn %s of %s (expected one `let mut solver: Box<dyn ..> = match ..`)" % (len(tables), x['function'], x['file']))
    t = tables[0]
    res = []
    for sem, allowed in sorted(x['allowed'].items()):
        arms = [a for a in t['arms'] if re.search(r'(^|[^A-Za-z0-9_])Semantics\s*::\s*%s($|[^A-Za-z0-9_])' % sem, a['pattern'])]
        wild = [a for a in t['arms'] if a['pattern'].strip() == '_' or not a['pattern'].strip().startswith('Semantics')]
        name = "dispatch::%s::%s" % (x['function'], sem)
        base = {"name": name, "backend": "syntactic(vx dispatch)", "cmd": " ".join(cmd) if not res else None,
                "time_ms": int((time.time() - t0) * 1000 / max(1, len(x['allowed'])))}
        # the first arm whose pattern names the semantics is the one taken (later ones are unreachable for it); a wildcard or
        # other pattern anywhere in the table, or a guard on that arm, is outside what the scan understands
        if len(arms) < 1 or arms[0]['guard'] or wild or arms[0]['ctor'] is None or arms[0]['ctor'] not in KNOWN_SOLVERS:
            base.update({"status": "undecided", "msg": "dispatch shape not understood",
                         "detail": "src/%s fn %s, semantics %s: %d arm(s), guards/wildcards or an unknown solver type -- undecided" % (x['file'], x['function'], sem, len(arms))})
        elif arms[0]['ctor'] in allowed:
            base.update({"status": "ok", "msg": "",
                         "detail": "src/%s:%d fn %s: %s -> %s (allowed: %s)" % (x['file'], arms[0]['line'], x['function'], sem, arms[0]['ctor'], ', '.join(allowed))})
        else:
            base.update({"status": "fail", "msg": "%s-%s is dispatched to %s, whose answers are not those of the %s semantics for this query" % (x['query'], sem, arms[0]['ctor'], sem),
                         "detail": "src/%s:%d fn %s: arm `%s` builds a %s; allowed for %s-%s: %s" % (x['file'], arms[0]['line'], x['function'], arms[0]['pattern'], arms[0]['ctor'], x['query'], sem, ', '.join(allowed)),
                         "counterexample": {"site": "src/%s:%d" % (x['file'], arms[0]['line']), "query": "%s-%s" % (x['query'], sem), "solver": arms[0]['ctor']}})
        res.append(base)
    return res


ENC_COMPLETE = ["new_for_complete_semantics", "HybridCompleteConstraintsEncoder::default", "new_default_complete_constraints_encoder"]
ENC_KNOWN = ENC_COMPLETE + ["new_for_admissibility", "new_for_conflict_freeness", "new_default_conflict_freeness_encoder"]
ALL_SEM = ["GR", "CO", "PR", "ST", "SST", "STG", "ID"]

def encoder_dispatch(repo, work, x):
    """syntactic obligations on solve_command::create_encoder: the encoders that can be built for a semantics must capture the
    base semantics its solver enumerates -- conflict-free sets for STG, complete sets for CO / PR / SST / ID (admissible sets
    are also right for SE-PR, and only there). One obligation per (arm, semantics reaching the arm)."""
    import re
    oj = os.path.join(work, 'dispatch_enc.json')
    cmd = [assemble.VX, 'dispatch', os.path.join(repo, 'src'), oj, x['file']]
    t0 = time.time()
    p = subprocess.run(cmd, capture_output=True, text=True)
    if p.returncode != 0:
        raise assemble.Undecided("dispatch scan failed: " + p.stderr.strip())
    tables = [t for t in json.load(open(oj)).get('tail_match_tables', []) if t['function'] == x['function']]
    if len(tables) != 1:
        raise assemble.Undecided("dispatch scan: no `match` as the last expression of fn %s in %s" % (x['function'], x['file']))
    res = []
    taken = set()
    for a in tables[0]['arms']:
        named = [sm for sm in ALL_SEM if re.search(r'(^|[^A-Za-z0-9_])Semantics\s*::\s*%s($|[^A-Za-z0-9_])' % sm, a['pattern'])]
        if a['pattern'].strip() == '_':
            reach = [sm for sm in ALL_SEM if sm not in taken]
        elif named:
            reach = [sm for sm in named if sm not in taken]
        else:
            res.append({"name": "encoder_dispatch::%s::arm@%d" % (x['function'], a['line']), "backend": "syntactic(vx dispatch)", "status": "undecided",
                        "msg": "arm pattern not understood", "detail": "src/%s:%d arm `%s`" % (x['file'], a['line'], a['pattern']), "cmd": None, "time_ms": 0})
            continue
        if a['guard'] is None:
            taken.update(named if named else reach)
        for sm in reach:
            if sm in ('GR', 'ST'):
                continue   # their solvers take no encoder from this function
            name = "encoder_dispatch::%s::%s%s" % (x['function'], sm, '[guarded]' if a['guard'] else '')
            base = {"name": name, "backend": "syntactic(vx dispatch)", "cmd": " ".join(cmd) if not res else None,
                    "time_ms": int((time.time() - t0) * 1000)}
            unknown = [c for c in a['ctors'] if c not in ENC_KNOWN]
            if sm == 'STG':
                allowed = ["new_for_conflict_freeness", "new_default_conflict_freeness_encoder"]
            elif sm == 'PR' and a['guard'] and 'SE-PR' in a['guard']:
                allowed = ENC_COMPLETE + ["new_for_admissibility"]
            else:
                allowed = ENC_COMPLETE
            bad = [c for c in a['ctors'] if c in ENC_KNOWN and c not in allowed]
            if unknown:
                base.update({"status": "undecided", "msg": "unknown encoder constructor", "detail": "src/%s:%d: %s" % (x['file'], a['line'], unknown)})
            elif bad:
                base.update({"status": "fail", "msg": "an encoder for another base semantics can be built for %s" % sm,
                             "detail": "src/%s:%d fn %s, arm `%s`%s: builds %s; for %s only %s capture the sets its solver enumerates" % (x['file'], a['line'], x['function'], a['pattern'], (' if ' + a['guard']) if a['guard'] else '', sorted(set(bad)), sm, allowed),
                             "counterexample": {"site": "src/%s:%d" % (x['file'], a['line']), "semantics": sm, "encoders": sorted(set(bad))}})
            else:
                base.update({"status": "ok", "msg": "", "detail": "src/%s:%d %s -> %s" % (x['file'], a['line'], sm, sorted(set(a['ctors'])))})
            res.append(base)
    if not [r for r in res if r['status'] == 'ok']:
        raise assemble.Undecided("vacuity guard: no encoder dispatch obligation could be decided")
    return res
