"""Obligations discharged by a back end other than Verus: syntactic call-site obligations (C17)
and Kani harnesses over loop-free leaf functions (full-domain symbolic inputs => complete proofs)."""
import json, os, subprocess, time
from . import assemble, kani

def run(pid, cfg, repo, work, tier):
    out = []
    for x in cfg.get('extra', []):
        if x['kind'] == 'sat_sites':
            out += sat_sites(repo, work, x)
        elif x['kind'] == 'kani':
            out += kani.run(repo, work, x, tier)
    return out

def sat_sites(repo, work, x):
    oj = os.path.join(work, 'sites.json')
    cmd = [assemble.VX, 'sites', os.path.join(repo, 'src'), oj] + x['dirs']
    t0 = time.time()
    p = subprocess.run(cmd, capture_output=True, text=True)
    if p.returncode != 0:
        raise assemble.Undecided("call-site scan failed: " + p.stderr.strip())
    sites = json.load(open(oj))['sites']
    if not sites:
        raise assemble.Undecided("vacuity guard: no SAT call site found under %s" % x['dirs'])
    res = []
    counts = {}
    for s in sites:
        key = "%s::%s" % (s['file'], s['function'])
        k = counts.get(key, 0)
        counts[key] = k + 1
        name = "sat_sites::%s#%d" % (key, k)
        res.append({"name": name, "backend": "syntactic(vx sites)",
                    "status": {"ok": "ok", "fail": "fail"}.get(s['status'], 'undecided'),
                    "msg": s['why'],
                    "detail": "src/%s:%d in fn %s: `%s` -- %s" % (s['file'], s['line'], s['function'], s['text'], s['why']),
                    "cmd": " ".join(cmd), "time_ms": int((time.time() - t0) * 1000 / max(1, len(sites)))})
    for r in res[1:]:
        r['cmd'] = None
    return res
