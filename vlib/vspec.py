"""Parser for /verif/specs/units/*.vspec (contracts keyed by item of /repo/src)."""
import os, re

class SpecError(Exception):
    pass

class Item:
    def __init__(self, file, sel, opts):
        self.file = file
        self.sel = sel
        self.opts = opts          # dict: partial, into_as, slice_before, ret_name, opaque_fields
        self.parts = []           # list of (kind, arg, text)
        self.line = 0

class Verbatim:
    def __init__(self, text, line, inside=False):
        self.text = text
        self.line = line
        self.inside = inside
        self.root = False

class Unit:
    def __init__(self, name):
        self.name = name
        self.deps = []
        self.theory = []
        self.entries = []
        self.path = None
        self.defaults = {}

DIRECTIVE = re.compile(r'^\s*//@\s*(\S+)\s*(.*)$')

def parse(path):
    unit = None
    cur_item = None
    cur_kind = None
    cur_arg = None
    buf = []
    start_line = 0

    def flush():
        nonlocal buf, cur_kind, cur_arg
        text = "\n".join(buf)
        if cur_kind in ('verbatim', 'inside', 'root'):
            if text.strip():
                v = Verbatim(text, start_line, cur_kind == 'inside')
                v.root = (cur_kind == 'root')
                unit.entries.append(v)
        elif cur_kind is not None and cur_item is not None:
            cur_item.parts.append((cur_kind, cur_arg, text))
        elif text.strip():
            raise SpecError("%s:%d: text outside of a section" % (path, start_line))
        buf = []
        cur_kind = None
        cur_arg = None

    with open(path) as f:
        lines = f.read().split("\n")
    for ln, line in enumerate(lines, 1):
        m = DIRECTIVE.match(line)
        if not m:
            buf.append(line)
            continue
        d, rest = m.group(1), m.group(2).strip()
        if d == 'unit':
            unit = Unit(rest)
            unit.path = path
            continue
        if unit is None:
            raise SpecError("%s:%d: directive before //@ unit" % (path, ln))
        if d == 'deps':
            unit.deps = rest.split()
            continue
        if d == 'theory':
            unit.theory = rest.split()
            continue
        if d == 'defaults':
            for kv in rest.split(';'):
                kv = kv.strip()
                if '=' in kv:
                    k, v = kv.split('=', 1)
                    unit.defaults[k.strip()] = v.strip()
                elif kv:
                    unit.defaults[kv] = True
            continue
        flush()
        start_line = ln
        if d in ('verbatim', 'inside', 'root'):
            if d != 'inside':
                cur_item = None
            cur_kind = d
        elif d == 'item':
            # //@ item <file> :: <selector> [key=value ...]
            mm = re.match(r'^(\S+)\s*::\s*(.*?)\s*(\[(.*)\])?$', rest)
            if not mm:
                raise SpecError("%s:%d: bad item directive" % (path, ln))
            opts = {}
            if mm.group(4):
                for kv in mm.group(4).split(';'):
                    kv = kv.strip()
                    if not kv:
                        continue
                    if '=' in kv:
                        k, v = kv.split('=', 1)
                        opts[k.strip()] = v.strip()
                    else:
                        opts[kv] = True
            cur_item = Item(mm.group(1), mm.group(2), opts)
            cur_item.line = ln
            unit.entries.append(cur_item)
        elif d in ('sig', 'end', 'begin'):
            cur_kind, cur_arg = d, None
        elif d in ('loop', 'pre', 'top', 'bot', 'post', 'closure'):
            cur_kind, cur_arg = d, int(rest)
        elif d == 'type':
            cur_kind, cur_arg = 'type', rest
        elif d in ('at', 'after'):
            mm = re.match(r'^"(.*)"\s*(#(\d+))?$', rest)
            if not mm:
                raise SpecError("%s:%d: bad at directive" % (path, ln))
            cur_kind, cur_arg = d, (mm.group(1), int(mm.group(3)) if mm.group(3) else None)
        else:
            raise SpecError("%s:%d: unknown directive %s" % (path, ln, d))
        if cur_item is None and cur_kind not in ('verbatim', 'inside', 'root', None):
            raise SpecError("%s:%d: %s outside of an item" % (path, ln, d))
    flush()
    if unit is None:
        raise SpecError("%s: no //@ unit" % path)
    return unit

def load_all(specdir):
    units = {}
    for fn in sorted(os.listdir(specdir)):
        if fn.endswith('.vspec'):
            u = parse(os.path.join(specdir, fn))
            units[u.name] = u
    return units
