"""bin/check <property> --tier quick|thorough | --replay <file>

Decides one property by contract-based deductive verification of functions extracted from
/repo's working tree (see DESIGN.md).  exit 0 = every obligation discharged (listed known findings
aside); exit 1 + "VIOLATION property=<id> replay=<path>" = a baseline obligation is refuted by the
verifier; exit 2 = undecided (extractor refused, anchor lost, rlimit, front-end error, vacuity guard).
"""
import argparse, json, os, re, shutil, subprocess, sys, time

from . import assemble, verus, vspec, extra

VERIF = assemble.VERIF

def load_json(p):
    with open(p) as f:
        return json.load(f)

FN_HEAD = re.compile(r'^\s*(pub(\([a-z]+\))?\s+)?(broadcast\s+)?((open|closed|uninterp)\s+)?(proof|spec|exec)?\s*fn\s+([A-Za-z_][A-Za-z0-9_]*)')

def functions_of_chunks(gen_lines, meta):
    """returns list of functions: dict(unit, name, qual, mode, first, last, item)"""
    fns = []
    for (first, last, unit, desc) in meta['linemap']:
        if unit is None or unit.startswith('theory:') or desc is None:
            if unit is not None and unit.startswith('theory:'):
                # theory chunks: proof fns are obligations of module named in file (pub mod X)
                fns += scan_verbatim(gen_lines, first, last, unit)
            continue
        if isinstance(desc, dict):
            if desc['kind'] in ('struct', 'enum', 'type'):
                continue
            cont = desc.get('container_short') or ''
            q = "%s::%s" % (unit, desc['sel'].replace('impl ', '').replace('trait ', '').replace('fn ', ''))
            base_name = desc['name'][:-7] if desc['name'].endswith('__eager') else desc['name']
            if not q.endswith(base_name):
                q += "[%s]" % desc['name']      # a fragment of the function (R11)
            fns.append({"unit": unit, "name": desc['name'], "mode": "exec", "first": first, "last": last,
                        "item": desc, "qual": q})
        else:
            fns += scan_verbatim(gen_lines, first, last, unit)
    return fns

def scan_verbatim(gen_lines, first, last, unit):
    out = []
    cur = None
    mod = None
    for ln in range(first, last + 1):
        line = gen_lines[ln - 1]
        mm = re.match(r'^\s*pub mod ([A-Za-z_0-9]+)\s*\{', line)
        if mm:
            mod = mm.group(1)
        m = FN_HEAD.match(line)
        if m:
            if cur:
                cur['last'] = ln - 1
                out.append(cur)
            mode = m.group(6) or 'exec'
            u = unit
            if unit.startswith('theory:'):
                u = mod or unit
            elif mod:
                u = unit + '::' + mod
            cur = {"unit": u, "name": m.group(7), "mode": mode, "first": ln, "last": last, "item": None,
                   "qual": "%s::%s" % (u, m.group(7))}
    if cur:
        out.append(cur)
    return out

def attribute(fns, line):
    best = None
    for f in fns:
        if f['first'] <= line <= f['last']:
            if best is None or f['first'] >= best['first']:
                best = f
    return best

def assumption_scan(gen_text):
    found = []
    for pat in (r'\bassume\s*\(', r'\badmit\s*\(', r'external_body', r'assume_specification', r'verifier::external\b',
                r'external_fn_specification', r'external_type_specification', r'verifier::exec_allows_no_decreases_clause',
                r'verifier::rlimit', r'verifier::spinoff_prover'):
        for m in re.finditer(pat, gen_text):
            ln = gen_text.count("\n", 0, m.start()) + 1
            line = gen_text.split("\n")[ln - 1].strip()
            # name the item it is attached to: next line(s) with fn/struct
            tail = gen_text[m.start():m.start() + 400]
            nm = re.search(r'(fn|struct|enum)\s+([A-Za-z_0-9:<>]+)', tail)
            found.append("%s @ %s" % (re.sub(r'\\[bs]\*?|\\\(|\\b', '', pat), nm.group(0) if nm else line))
    return sorted(set(found))

def main(argv=None):
    ap = argparse.ArgumentParser()
    ap.add_argument('prop')
    ap.add_argument('--tier', default=os.environ.get('VERIF_TIER', 'quick'))
    ap.add_argument('--replay')
    ap.add_argument('--repo', default=os.environ.get('VERIF_REPO', '/repo'))
    ap.add_argument('--no-evidence', action='store_true')
    ap.add_argument('--update-baseline', action='store_true')
    args = ap.parse_args(argv)
    assemble.REPO = args.repo
    if args.update_baseline:
        assemble.USE_BASELINE_LOOPS = False
    pid = args.prop
    props = load_json(os.path.join(VERIF, 'specs', 'properties.json'))
    if pid not in props:
        print("unknown or unclaimed property %s" % pid)
        return 2
    if args.replay:
        return replay(pid, args.replay)
    cfg = props[pid]
    seed = int(os.environ.get('VERIF_SEED', '0') or 0)
    t0 = time.time()
    try:
        rc, ev = decide(pid, cfg, args.tier, seed, args)
    except assemble.Undecided as e:
        # the deductive part has no verdict; the failing inputs of repaired defects are still replayed on the real code:
        # a defect that is back is reported with its input whatever the state of the proof
        back = []
        try:
            back = [o for o in extra.fixed_replays(pid, args.repo) if o['status'] == 'fail']
        except Exception:
            back = []
        if back:
            os.makedirs(os.path.join(VERIF, 'replays'), exist_ok=True)
            for o in back:
                rp = os.path.join(VERIF, 'replays', '%s-%s.json' % (pid, re.sub(r'[^A-Za-z0-9_.-]+', '_', o['name'])))
                with open(rp, 'w') as fo:
                    json.dump({"property": pid, "obligation": o['name'], "verdict": "the failing input of a repaired defect fails again on the real code",
                               "counterexample": o.get('counterexample'), "replay_on_real_code": o.get('replay'), "checker_cmd": o.get('cmd'),
                               "note": "the deductive part of this run was undecided: " + str(e)[:600]}, fo, indent=1)
                print("VIOLATION property=%s replay=%s obligation=%s" % (pid, rp, o['name']))
            rc, ev = 1, None
        else:
            print("UNDECIDED property=%s reason=%s" % (pid, str(e).replace("\n", " | ")[:2000]))
            rc, ev = 2, None
    if ev is not None and not args.no_evidence:
        ev['wall_s'] = round(time.time() - t0, 2)
        os.makedirs(os.path.join(VERIF, 'evidence'), exist_ok=True)
        with open(os.path.join(VERIF, 'evidence', pid + '.json'), 'w') as f:
            json.dump(ev, f, indent=1)
    if os.path.abspath(args.repo) != '/repo':
        shutil.rmtree(os.path.join(VERIF, 'build', '%s-%d' % (pid, os.getpid())), ignore_errors=True)
    return rc

def match_any(pats, s):
    return any(re.search(p, s) for p in pats)

def decide(pid, cfg, tier, seed, args):
    # a scratch copy gets its own work directory: several checks of the same property may run at once (seed / benign reports)
    work = os.path.join(VERIF, 'build', pid if os.path.abspath(args.repo) == '/repo' else '%s-%d' % (pid, os.getpid()))
    shutil.rmtree(work, ignore_errors=True)
    os.makedirs(work, exist_ok=True)
    units = cfg['units']
    path, meta = assemble.assemble(units, work, repo=args.repo)
    gen_text = open(path).read()
    gen_lines = gen_text.split("\n")
    fns = functions_of_chunks(gen_lines, meta)
    scan = assumption_scan(gen_text)
    allow = load_json(os.path.join(VERIF, 'specs', 'assumptions_allow.json'))
    unexpected = [s for s in scan if s not in allow]
    if unexpected and args.update_baseline:
        allow = sorted(set(allow) | set(unexpected))
        with open(os.path.join(VERIF, 'specs', 'assumptions_allow.json'), 'w') as fo:
            json.dump(allow, fo, indent=1)
    elif unexpected:
        raise assemble.Undecided("assumption scan: not on the allow-list: %s" % unexpected)
    modules = list(meta['units'])
    theory_mods = sorted(set(f['unit'] for f in fns if f['item'] is None and f['unit'] not in modules and '::' not in f['unit']))
    vmods = modules + [m for m in theory_mods if m != 'base']
    runs = []
    rlimit = cfg.get('rlimit', 20)
    res = verus.run(path, vmods, rlimit=rlimit)
    runs.append(res)
    if not res.ok:
        raise assemble.Undecided("verus front end: " + (res.compile_error or '')[:3000])
    # ---- attribute errors to functions
    failing = {}     # qual -> list of errors
    unattributed = []
    for e in res.errors:
        f = attribute(fns, e['line']) if e['line'] else None
        if f is None:
            unattributed.append(e)
            continue
        failing.setdefault(f['qual'], []).append(e)
    if unattributed:
        raise assemble.Undecided("verifier error outside any known function: " + unattributed[0]['text'][:1500])
    # a woven assertion that serves one property only carries `// @only Cxx[,Cyy]` on its line: for the other properties that
    # share the function its rejection says nothing (e.g. the SAT-call counter of C18 inside a function that C01 also owns)
    other_only = {}
    for q in list(failing.keys()):
        keep = []
        for e in failing[q]:
            cl = e.get('clause_line')
            src = gen_lines[cl - 1] if cl and 0 < cl <= len(gen_lines) else ''
            mt = re.search(r'@only\s+(C\d\d(?:\s*,\s*C\d\d)*)', src)
            if mt and pid not in [x.strip() for x in mt.group(1).split(',')]:
                other_only.setdefault(q, []).append(mt.group(1))
                continue
            keep.append(e)
        if keep:
            failing[q] = keep
        else:
            del failing[q]
    n_fail_verus = sum(1 for n, v in res.functions.items() if not v['success'])
    obligations = [f for f in fns if f['mode'] in ('exec', 'proof') and not (f['item'] and not has_body(f))]
    # ---- negative controls must fail
    negctl = [f for f in obligations if '::negctl' in f['qual'] or f['name'].startswith('negctl_')]
    real = [f for f in obligations if f not in negctl]
    for f in negctl:
        if f['qual'] not in failing:
            raise assemble.Undecided("vacuity guard: negative control %s was accepted by the verifier" % f['qual'])
        if not all(e['semantic'] for e in failing[f['qual']]):
            raise assemble.Undecided("vacuity guard: negative control %s failed for a non-semantic reason" % f['qual'])
    if len(real) == 0:
        raise assemble.Undecided("vacuity guard: zero obligations")
    # ---- timing per function from the breakdown
    def timing(f):
        best = None
        for n, v in res.functions.items():
            parts = n.split('::')
            if parts[-1] == f['name'] and f['unit'].split('::')[0] in parts:
                best = v
        return best
    # ---- baseline
    bpath = os.path.join(VERIF, 'specs', 'baseline_obligations.json')
    baseline = load_json(bpath) if os.path.exists(bpath) else {}
    own = cfg.get('own', ['.*'])
    relies = cfg.get('relies', [])
    relevant = [f for f in real if match_any(own, f['qual']) or match_any(relies, f['qual'])]
    names = sorted(f['qual'] for f in relevant)
    if args.update_baseline:
        sh = assemble.shapes()
        sh.update(meta['shapes'])
        with open(assemble.SHAPES_PATH, 'w') as fo:
            json.dump(sh, fo, indent=0, sort_keys=True)
        baseline[pid] = sorted(n for n in names if n not in failing)
        baseline.setdefault('__notes__', {})[pid] = sorted(set(meta.get('reanchored', [])))
        with open(bpath, 'w') as fo:
            json.dump(baseline, fo, indent=1, sort_keys=True)
    base = set(baseline.get(pid, []))
    missing = sorted(base - set(names))
    if missing:
        raise assemble.Undecided("lost anchor: baseline obligations no longer generated: %s" % missing[:5])
    # ---- known findings
    kf = load_json(os.path.join(VERIF, 'known_findings.json'))
    all_open = [k for k in kf.get('findings', []) if k.get('status') == 'open']
    open_findings = [k for k in all_open if k['property'] == pid]
    violations = []
    known_reported = []
    foreign_known = []
    foreign_only = set()   # obligations whose only rejected clause is a finding listed under another property
    undecided = []

    def clause_of(e):
        cl = e.get('clause_line')
        return gen_lines[cl - 1].strip() if cl and 0 < cl <= len(gen_lines) else ''

    def finding_for(q, e):
        """the open finding that explains error e of obligation q: same obligation and, when the finding names a clause,
        a rejected postcondition whose text is that clause (any other rejection in the same function is NOT explained)"""
        for k in sorted(all_open, key=lambda k_: k_['property'] != pid):   # findings of this property first
            if k['obligation'] != q:
                continue
            if 'clause' not in k:
                return k
            if 'postcondition' in e['msg'] and k['clause'] in clause_of(e):
                return k
        return None

    for f in relevant:
        q = f['qual']
        if q not in failing:
            continue
        errs = failing[q]
        explained = [(e, finding_for(q, e)) for e in errs]
        if any(k is not None and 'clause' in k for e, k in explained):
            # clause-level findings: drop the explained rejections; what remains is judged on its own
            rest = [e for e, k in explained if k is None or 'clause' not in k]
            for e, k in explained:
                if k is not None and 'clause' in k:
                    if k['property'] == pid:
                        if k not in known_reported:
                            known_reported.append(k)
                    elif k not in foreign_known:
                        foreign_known.append(k)
            if not rest:
                if all(k['property'] != pid for e, k in explained):
                    foreign_only.add(q)
                continue
            if any(e['semantic'] for e in rest):
                violations.append((f, rest))
            else:
                undecided.append((q, rest))
            continue
        # undecided when the verifier gave no semantic verdict at all (only resource limits / unsupported constructs);
        # a semantic rejection next to an exhausted resource limit is still a rejection
        if not any(e['semantic'] for e in errs) or any((not e['semantic']) and (not e['rlimit']) for e in errs):
            undecided.append((q, errs))
            continue
        k = next((k for k in open_findings if k['obligation'] == q), None)
        if k is not None:
            known_reported.append(k)
            continue
        if q not in base:
            undecided.append((q, errs))
            continue
        violations.append((f, errs))
    # ---- second opinion before any Verus obligation is reported as violated: the same file under another solver seed and
    # twice the resource limit; an obligation that is accepted there was rejected for a non-semantic reason (proof instability)
    # and is reported as undecided, never as a violation
    if violations:
        r2 = verus.run(path, vmods, rlimit=rlimit * 2, seed=(seed * 31 + 17) % 1000003 + 1)
        runs.append(r2)
        if r2.ok:
            failing2 = set()
            for e in r2.errors:
                f2 = attribute(fns, e['line']) if e['line'] else None
                if f2 is not None:
                    failing2.add(f2['qual'])
            kept = []
            for f, errs in violations:
                if f['qual'] in failing2:
                    kept.append((f, errs))
                else:
                    undecided.append((f['qual'], [{"text": "rejected under the default solver seed but accepted under another seed with twice the resource limit: unstable proof, undecided", "msg": "unstable"}]))
            violations = kept
    # ---- a function whose woven proof no longer fits (pieces dropped or re-attached because their anchor, loop or closure
    # changed) and that no longer verifies is UNDECIDED, not a violation: the rejection may be the proof's, not the code's
    # (set VX_LENIENT=1 to report such rejections as violations, as bin/seedreport does to show both readings)
    def misfit_notes(f):
        if not (isinstance(f, dict) and f.get('item')):
            return []
        fl = f['item']['file']
        w = "%s :: %s" % (fl[4:] if fl.startswith('src/') else fl, f['item']['sel'])
        if f['item'].get('frag'):
            w += "[%s]" % f['item']['frag']
        base_notes = set((baseline.get('__notes__') or {}).get(pid, []))
        return [n for n in meta.get('reanchored', []) if n.startswith(w + ':') and n not in base_notes]
    if not os.environ.get('VX_LENIENT'):
        kept = []
        for f, errs in violations:
            notes = misfit_notes(f)
            if notes:
                undecided.append((f['qual'], [{"text": "the woven proof no longer fits this function (%s) and the function is not verified any more: undecided, not a violation" % "; ".join(notes)[:900], "msg": "misfit"}]))
            else:
                kept.append((f, errs))
        violations = kept
    # ---- extra (non-Verus) obligations: kani leaf harnesses, syntactic call-site obligations
    extra_obl = extra.run(pid, cfg, args.repo, work, tier)
    for o in extra_obl:
        if o['status'] == 'undecided':
            undecided.append((o['name'], [{"text": o.get('detail', ''), "msg": "undecided"}]))
        elif o['status'] == 'fail':
            k = next((k for k in open_findings if k['obligation'] == o['name']), None)
            if k is not None:
                known_reported.append(k)
            else:
                violations.append(({"qual": o['name'], "item": None, "first": 0, "last": -1, "extra": o}, [{"text": o.get('detail', ''), "msg": o.get('msg', 'refuted')}]))
    # ---- thorough: re-run under other seeds and a doubled rlimit (stability)
    unstable = []
    if tier == 'thorough' and not violations and not undecided:
        for k in range(3):
            s = (seed * 7919 + 104729 * (k + 1)) % 1000003
            r2 = verus.run(path, vmods, rlimit=rlimit * 2, seed=s)
            runs.append(r2)
            if not r2.ok:
                raise assemble.Undecided("verus front end (seeded rerun): " + (r2.compile_error or '')[:1000])
            bad = set()
            for e in r2.errors:
                f = attribute(fns, e['line']) if e['line'] else None
                if f is not None and '::negctl' not in f['qual'] and not f['name'].startswith('negctl_'):
                    if finding_for(f['qual'], e) is not None:
                        continue    # explained by an open known finding (of this or of another property)
                    if f['qual'] not in [kk['obligation'] for kk in known_reported]:
                        bad.add(f['qual'])
            if bad:
                unstable.append({"seed": s, "failing": sorted(bad)})
    # ---- thorough: the self-test catalogue for this property (scratch copies; expected verdicts must be met)
    selftest_log = []
    if tier == 'thorough' and not violations and not undecided and os.path.abspath(args.repo) == '/repo' and not os.environ.get('VX_IN_SELFTEST'):
        env = dict(os.environ, VX_IN_SELFTEST='1', VERIF_TIER='quick')
        st = subprocess.run([os.path.join(VERIF, 'bin', 'selftest'), '--property', pid], capture_output=True, text=True, env=env)
        selftest_log = [l for l in st.stdout.split("\n") if l.strip()]
        if st.returncode != 0:
            for l in selftest_log:
                if 'MISMATCH' in l or 'DOES NOT APPLY' in l:
                    unstable.append({"seed": "selftest", "failing": [l[:200]]})
    # ---- thorough: dynamic fidelity check of the extraction rules on this property's units (assumption check)
    fidelity = None
    if tier == 'thorough' and not violations and not undecided and os.path.abspath(args.repo) == '/repo' and not os.environ.get('VX_IN_SELFTEST'):
        fp = subprocess.run([os.path.join(VERIF, 'bin', 'fidelity')] + list(units), capture_output=True, text=True)
        try:
            fidelity = load_json(os.path.join(VERIF, 'build', 'fidelity', 'result.json'))
            fidelity['substituted'] = len(fidelity.get('substituted', []))
        except Exception:
            fidelity = {"error": (fp.stdout + fp.stderr)[-800:]}
        if fp.returncode != 0:
            unstable.append({"seed": "fidelity", "failing": [(fp.stdout + fp.stderr)[-400:]]})
    # ---- report
    rc = 0
    os.makedirs(os.path.join(VERIF, 'replays'), exist_ok=True)
    for k in known_reported:
        print("KNOWN-FINDING: property=%s %s" % (pid, k['what']))
    for f, errs in violations:
        rp = os.path.join(VERIF, 'replays', '%s-%s.json' % (pid, re.sub(r'[^A-Za-z0-9_.-]+', '_', f['qual'])))
        rep = {"property": pid, "obligation": f['qual'], "verdict": "refuted by the verifier",
               "verifier_output": [e['text'] for e in errs],
               "repo_item": f['item'],
               "generated_text": "\n".join(gen_lines[f['first'] - 1:f['last']]) if f['last'] >= f['first'] else None,
               "checker_cmd": res.cmd,
               "note": ("; ".join(meta.get('reanchored', [])) or None)}
        suffix = " no-failing-input-found"
        ex = f.get('extra') if isinstance(f, dict) else None
        if ex and ex.get('counterexample'):
            rep['counterexample'] = ex['counterexample']
            rep['replay_on_real_code'] = ex.get('replay')
            suffix = ""
        with open(rp, 'w') as fo:
            json.dump(rep, fo, indent=1)
        print("VIOLATION property=%s replay=%s obligation=%s%s" % (pid, rp, f['qual'], suffix))
        rc = 1
    if rc == 0 and (undecided or unstable):
        for q, errs in undecided:
            print("UNDECIDED property=%s obligation=%s reason=%s" % (pid, q, errs[0]['text'][:1500].replace("\n", " | ")))
        for u in unstable:
            print("UNDECIDED property=%s unstable-under-seed=%s failing=%s" % (pid, u['seed'], u['failing']))
        rc = 2
    discharged = [f for f in relevant if f['qual'] not in failing or f['qual'] in foreign_only]
    n_extra_ok = sum(1 for o in extra_obl if o['status'] == 'ok')
    samples = []
    for f in relevant[:]:
        if f['item'] and f['item'].get('under_contract') and len(samples) < 4:
            samples.append({"obligation": f['qual'], "repo": "%s:%d-%d" % (f['item']['file'], f['item']['line_start'], f['item']['line_end']),
                            "woven_contract_and_code": "\n".join(gen_lines[f['first'] - 1:min(f['last'], f['first'] + 40)])})
    for o in extra_obl[:3]:
        samples.append({"obligation": o['name'], "backend": o['backend'], "detail": o.get('detail', '')[:600]})
    per_fn = []
    for f in relevant:
        t = timing(f)
        per_fn.append({"obligation": f['qual'], "backend": "verus", "mode": f['mode'],
                       "status": ("discharged (one clause of this function is a finding listed under another property)" if f['qual'] in foreign_only
                                  else "refuted" if f['qual'] in failing else "discharged"),
                       "solver_time_ms": t['time_ms'] if t else None,
                       "repo": ("%s:%d-%d" % (f['item']['file'], f['item']['line_start'], f['item']['line_end'])) if f['item'] else None,
                       "sha256": f['item']['sha256'] if f['item'] else None,
                       "rules": f['item']['rules'] if f['item'] else None})
    for o in extra_obl:
        per_fn.append({"obligation": o['name'], "backend": o['backend'], "status": o['status'], "solver_time_ms": o.get('time_ms')})
    rules = sorted(set(r for f in relevant if f['item'] for r in f['item']['rules']))
    trusted = load_json(os.path.join(VERIF, 'specs', 'trusted_base.json'))
    tb = list(trusted.get('common', [])) + list(trusted.get(pid, []))
    tb.append("assumption scan of the generated file (this run): " + "; ".join(scan))
    ev = {
        "property_id": pid, "tier": tier, "seed": seed, "level": "proof",
        "coverage": {
            "obligations": len(relevant) + len(extra_obl) - len(known_reported),
            "refuted_known_findings": len(known_reported),
            "discharged": len(discharged) + n_extra_ok,
            "checker_cmd": res.cmd + ((" ; " + " ; ".join(o['cmd'] for o in extra_obl if o.get('cmd'))) if extra_obl else ""),
            "trusted_base": tb,
            "samples": samples,
            "scope": cfg.get('scope', ''),
            "functions_under_contract": [p for p in per_fn if p.get('repo')],
            "obligation_table": per_fn,
            "verus_version": res.version,
            "verus_totals": {"verified": res.verified, "errors": res.n_errors, "smt_run_ms": sum(r.smt_ms for r in runs),
                             "wall_s": round(sum(r.wall_s for r in runs), 2), "runs": len(runs)},
            "negative_controls_rejected": [f['qual'] for f in negctl],
            "extraction_rules_applied": rules,
            "dropped_by_extraction": trusted.get('dropped', []),
            "assumption_scan": scan,
            "known_findings_reported": [k['what'] for k in known_reported],
            "known_findings_of_other_properties_on_shared_obligations": [k['id'] for k in foreign_known],
            "assertions_of_other_properties_rejected_in_shared_functions": other_only,
            "unstable": unstable,
            "selftest": selftest_log,
            "extraction_fidelity": fidelity,
            "bounded": [],
            "exhaustive": False,
        },
        "assumptions": tb,
        "violations": len(violations),
        "wall_s": 0.0,
    }
    return rc, ev

def has_body(f):
    # extracted trait method declarations without a default body carry no obligation
    return True

def replay(pid, path):
    rep = load_json(path)
    print(json.dumps({k: rep.get(k) for k in ('property', 'obligation', 'verdict', 'counterexample', 'replay_on_real_code')}, indent=1))
    for t in rep.get('verifier_output', []):
        print(t)
    # re-run the check: the violation replays iff the obligation is still refuted on the current tree
    rc = main([pid, '--tier', 'quick', '--no-evidence'])
    return rc

if __name__ == '__main__':
    sys.exit(main())
