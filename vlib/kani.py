"""Kani harnesses over loop-free leaf functions copied verbatim (by vx) from /repo/src."""
def run(repo, work, x, tier):
    return []
