"""Kani harnesses over loop-free leaf functions of the REAL crate (path dependency on the repository under check).
Full-domain symbolic inputs and no loops: a passing harness is a complete proof, not a bounded one."""
import fcntl, os, re, shutil, subprocess, time

VERIF = os.path.dirname(os.path.dirname(os.path.abspath(__file__)))

def run(repo, work, x, tier):
    src = os.path.join(VERIF, 'kani_leaf')
    if os.path.abspath(repo) == '/repo':
        crate = src
    else:
        # scratch copy of the repository (self-test): build a private copy of the harness crate against it
        if not os.path.exists(os.path.join(repo, 'Cargo.toml')):
            return [{"name": "kani::" + h, "backend": "kani", "status": "undecided",
                     "detail": "scratch repository without Cargo.toml: Kani harnesses not run"} for h in x['harnesses']]
        crate = os.path.join(work, 'kani_leaf')
        shutil.rmtree(crate, ignore_errors=True)
        shutil.copytree(src, crate, ignore=shutil.ignore_patterns('target'))
        ct = open(os.path.join(crate, 'Cargo.toml')).read().replace('path = "/repo"', 'path = "%s"' % os.path.abspath(repo))
        open(os.path.join(crate, 'Cargo.toml'), 'w').write(ct)
    lock = os.path.join(repo, 'Cargo.lock')
    if os.path.exists(lock):
        shutil.copy(lock, os.path.join(crate, 'Cargo.lock'))
    res = []
    env = dict(os.environ, CARGO_NET_OFFLINE='true')
    lockf = open(os.path.join(VERIF, 'build', '.kani.lock'), 'w')
    fcntl.flock(lockf, fcntl.LOCK_EX)
    try:
        for h in x['harnesses']:
            cmd = ['cargo', 'kani', '--harness', h]
            t0 = time.time()
            try:
                p = subprocess.run(cmd, cwd=crate, env=env, capture_output=True, text=True, timeout=x.get('timeout', 600))
                out = p.stdout + p.stderr
            except subprocess.TimeoutExpired:
                res.append({"name": "kani::" + h, "backend": "kani", "status": "undecided", "detail": "timeout", "cmd": " ".join(cmd)})
                continue
            dt = int((time.time() - t0) * 1000)
            ok = 'VERIFICATION:- SUCCESSFUL' in out and 'Complete - 1 successfully verified harnesses, 0 failures' in out
            failed = 'VERIFICATION:- FAILED' in out
            if ok:
                res.append({"name": "kani::" + h, "backend": "kani (cbmc, full domain, loop-free)", "status": "ok",
                            "detail": "harness %s verified" % h, "cmd": "cd kani_leaf && " + " ".join(cmd), "time_ms": dt})
            elif failed:
                descs = re.findall(r'Status: FAILURE\s*\n\s*- Description: "(.*?)"', out)
                if h in x.get('fixed_inputs', {}):
                    fi = x['fixed_inputs'][h]
                    cex, rep = {"harness": h, "input": fi['input']}, run_replay(fi['bin'], [], repo, env)
                else:
                    cex, rep = counterexample(crate, env, h, repo)
                res.append({"name": "kani::" + h, "backend": "kani (cbmc, full domain, loop-free)", "status": "fail",
                            "msg": "harness refuted: " + "; ".join(descs[:3]), "detail": out[-3000:],
                            "counterexample": cex, "replay": rep, "cmd": "cd kani_leaf && " + " ".join(cmd), "time_ms": dt})
            else:
                res.append({"name": "kani::" + h, "backend": "kani", "status": "undecided", "detail": out[-2000:], "cmd": " ".join(cmd)})
    finally:
        fcntl.flock(lockf, fcntl.LOCK_UN)
    return res

def run_replay(binname, argv, repo, env):
    """builds /verif/replay against the repository under check and runs one of its binaries on the real code"""
    rdir = os.path.join(VERIF, 'replay')
    tdir = os.path.join(rdir, 'target')
    if os.path.abspath(repo) != '/repo':
        # private copy of the replay crate pointing at the scratch repository
        rdir2 = os.path.join(os.path.abspath(repo), '.vx-replay')
        shutil.rmtree(rdir2, ignore_errors=True)
        shutil.copytree(rdir, rdir2, ignore=shutil.ignore_patterns('target'))
        ct = open(os.path.join(rdir2, 'Cargo.toml')).read().replace('path = "/repo"', 'path = "%s"' % os.path.abspath(repo))
        open(os.path.join(rdir2, 'Cargo.toml'), 'w').write(ct)
        rdir, tdir = rdir2, os.path.join(rdir2, 'target')
    b = subprocess.run(['cargo', 'build', '--release', '--offline', '--bin', binname], cwd=rdir, env=env, capture_output=True, text=True)
    exe = os.path.join(tdir, 'release', binname)
    if not os.path.exists(exe):
        return "replay binary could not be built: " + b.stderr[-500:]
    r = subprocess.run([exe] + argv, capture_output=True, text=True)
    return (r.stdout + r.stderr).strip()[-1500:]

def run_replay_rc(binname, argv, repo, env):
    """like run_replay, returns (exit code or None when the binary could not be built, output); scratch repositories share one
    target directory so that the dependencies are compiled once"""
    rdir = os.path.join(VERIF, 'replay')
    env = dict(env)
    lock = open(os.path.join(VERIF, 'build', '.replay.lock'), 'w')
    fcntl.flock(lock, fcntl.LOCK_EX)
    try:
        if os.path.abspath(repo) != '/repo':
            rdir2 = os.path.join(os.path.abspath(repo), '.vx-replay')
            shutil.rmtree(rdir2, ignore_errors=True)
            shutil.copytree(rdir, rdir2, ignore=shutil.ignore_patterns('target', 'target-scratch'))
            ct = open(os.path.join(rdir2, 'Cargo.toml')).read().replace('path = "/repo"', 'path = "%s"' % os.path.abspath(repo))
            open(os.path.join(rdir2, 'Cargo.toml'), 'w').write(ct)
            tdir = os.path.join(VERIF, 'replay', 'target-scratch')
            rdir = rdir2
        else:
            tdir = os.path.join(rdir, 'target')
        env['CARGO_TARGET_DIR'] = tdir
        b = subprocess.run(['cargo', 'build', '--release', '--offline', '--bin', binname], cwd=rdir, env=env, capture_output=True, text=True)
        exe = os.path.join(tdir, 'release', binname)
        if b.returncode != 0 or not os.path.exists(exe):
            return None, "replay binary could not be built: " + b.stderr[-500:]
        r = subprocess.run([exe] + argv, capture_output=True, text=True)
        return r.returncode, (r.stdout + r.stderr).strip()[-1500:]
    finally:
        fcntl.flock(lock, fcntl.LOCK_UN)

def counterexample(crate, env, h, repo):
    """asks Kani for a concrete counterexample and replays it on the real code through /verif/replay"""
    try:
        p = subprocess.run(['cargo', 'kani', '--harness', h, '-Z', 'concrete-playback', '--concrete-playback=print'],
                           cwd=crate, env=env, capture_output=True, text=True, timeout=600)
    except subprocess.TimeoutExpired:
        return None, None
    out = p.stdout + p.stderr
    m = re.search(r'//\s*(-?\d+)(?:isize|usize)?\s*\n\s*vec!\[', out)
    vals = re.findall(r'//\s*(-?\d+)\s*\n', out)
    if not vals:
        return None, None
    x = vals[0]
    rep = run_replay('leaf_literal', [x], repo, env)
    return {"harness": h, "input": x}, rep
