//! F3 (C09): the buffered dynamic solvers accept updates on unknown arguments/attacks (Ok(())) and only fail later.
use crustabri::dynamics::{DynamicCompleteSemanticsSolver, DynamicSolver};

fn main() {
    let mut s = DynamicCompleteSemanticsSolver::<usize>::new();
    s.new_argument(0);
    let r1 = s.remove_argument(&1);
    let r2 = s.new_attack(&0, &7);
    let r3 = s.remove_attack(&0, &0);
    println!("remove_argument(unknown) -> {:?}; new_attack(to unknown) -> {:?}; remove_attack(unknown) -> {:?}",
        r1.is_ok(), r2.is_ok(), r3.is_ok());
    if r1.is_ok() || r2.is_ok() || r3.is_ok() {
        println!("DEFECT F3 reproduced: an invalid update was reported as Ok(()) by the update call itself");
        std::process::exit(1);
    }
    println!("OK: invalid updates are rejected by the update call");
}
