//! F3 (C09): the five buffered dynamic solvers accept updates on unknown arguments/attacks (the update call returns
//! Ok(())) and only fail later. Prints one line per (solver, update) and exits 1 if any invalid update was accepted.
use crustabri::dynamics::assumptions_on_attacks::{
    DynamicCompleteSemanticsSolverAttacks, DynamicStableSemanticsSolverAttacks,
};
use crustabri::dynamics::{
    DynamicCompleteSemanticsSolver, DynamicPreferredSemanticsSolver, DynamicSolver,
    DynamicStableSemanticsSolver,
};

fn probe(name: &str, s: &mut dyn DynamicSolver<usize>) -> usize {
    s.new_argument(0);
    let r1 = s.remove_argument(&1).is_ok();
    let r2 = s.new_attack(&0, &7).is_ok();
    let r3 = s.remove_attack(&0, &0).is_ok();
    println!("{name}: remove_argument(unknown 1) accepted={r1}; new_attack(0 -> unknown 7) accepted={r2}; remove_attack(unknown 0 -> 0) accepted={r3}");
    r1 as usize + r2 as usize + r3 as usize
}

fn main() {
    let mut bad = 0;
    bad += probe("DynamicCompleteSemanticsSolver", &mut DynamicCompleteSemanticsSolver::<usize>::new());
    bad += probe("DynamicStableSemanticsSolver", &mut DynamicStableSemanticsSolver::<usize>::new());
    bad += probe("DynamicPreferredSemanticsSolver", &mut DynamicPreferredSemanticsSolver::<usize>::new());
    bad += probe("DynamicCompleteSemanticsSolverAttacks", &mut DynamicCompleteSemanticsSolverAttacks::<usize>::new());
    bad += probe("DynamicStableSemanticsSolverAttacks", &mut DynamicStableSemanticsSolverAttacks::<usize>::new());
    if bad > 0 {
        println!("DEFECT F3 reproduced: {bad} invalid updates were reported as Ok(()) by the update call itself");
        std::process::exit(1);
    }
    println!("OK: every invalid update is rejected by the update call");
}
