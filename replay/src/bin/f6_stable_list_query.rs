//! F6 (C07, stable semantics): a credulous query over a list of arguments that lie in different connected components is
//! answered as a conjunction over the components. b1 -> a1, and a2 isolated: {b1, a2} is the stable extension; it holds a2,
//! so DC-ST over [a1, a2] is YES. The solver says NO (the component of a1 has no stable extension with a1).
use crustabri::aa::{AAFramework, ArgumentSet};
use crustabri::solvers::{CredulousAcceptanceComputer, StableSemanticsSolver};

fn main() {
    let set = ArgumentSet::new_with_labels(&["a1", "b1", "a2"]);
    let mut af = AAFramework::new_with_argument_set(set);
    af.new_attack(&"b1", &"a1").unwrap();
    let mut solver = StableSemanticsSolver::new(&af);
    let single = solver.is_credulously_accepted(&"a2");
    let (with_cert, _) = solver.are_credulously_accepted_with_certificate(&[&"a1", &"a2"]);
    let without = solver.are_credulously_accepted(&[&"a1", &"a2"]);
    println!("DC-ST(a2) = {}, DC-ST([a1, a2]) = {} (with certificate) / {} (without)", single, with_cert, without);
    if single && (!with_cert || !without) {
        println!("DEFECT F6 reproduced: the list query is NO although a2 alone is credulously accepted");
        std::process::exit(1);
    }
    println!("OK: the list query is answered as a disjunction");
}
