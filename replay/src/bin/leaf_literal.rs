//! replays a Kani counterexample of the leaf harnesses on the real code: leaf_literal <isize>
use crustabri::sat::Literal;
fn main() {
    let x: isize = std::env::args().nth(1).expect("usage: leaf_literal <isize>").parse().expect("an isize");
    let r = std::panic::catch_unwind(|| {
        let l = Literal::from(x);
        println!("Literal::from({x}): isize::from = {}", isize::from(l));
        println!("negate: isize::from = {}", isize::from(l.negate()));
        println!("var: usize::from = {}", usize::from(l.var()));
    });
    if r.is_err() { println!("(panicked)"); }
}
