//! F4 (C16): the `p cnf` header of the external-solver exchange ignores variables that occur only in assumptions.
//! The "solver" is `sh -c 'cat > FILE; echo s UNSATISFIABLE'`, so the instance it receives can be inspected.
use crustabri::sat::{ExternalSatSolver, Literal, SatSolver};

fn main() {
    let path = std::env::temp_dir().join(format!("vx-f4-{}.cnf", std::process::id()));
    let script = format!("cat > {}; echo 's UNSATISFIABLE'", path.display());
    let mut s = ExternalSatSolver::new("sh".to_string(), vec!["-c".to_string(), script]);
    s.add_clause(vec![Literal::from(1isize), Literal::from(-2isize)]);
    let _ = s.solve_under_assumptions(&[Literal::from(5isize)]);
    let txt = std::fs::read_to_string(&path).unwrap();
    let _ = std::fs::remove_file(&path);
    let header = txt.lines().next().unwrap().to_string();
    let declared: usize = header.split_whitespace().nth(2).unwrap().parse().unwrap();
    let max_used = txt.lines().skip(1).flat_map(|l| l.split_whitespace().map(|w| w.parse::<isize>().unwrap().unsigned_abs()).collect::<Vec<_>>()).max().unwrap();
    println!("instance sent to the solver:\n{}", txt);
    if declared < max_used {
        println!("DEFECT F4 reproduced: header declares {} variables but variable {} occurs", declared, max_used);
        std::process::exit(1);
    }
    println!("OK: header declares {} variables, largest variable used is {}", declared, max_used);
}
