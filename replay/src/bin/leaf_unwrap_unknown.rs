//! replays the counterexample of harness unwrap_model_unknown_never_returns on the real code: input SolvingResult::Unknown
use crustabri::sat::SolvingResult;
fn main() {
    let r = std::panic::catch_unwind(|| SolvingResult::Unknown.unwrap_model());
    match r {
        Err(_) => println!("OK: SolvingResult::Unknown.unwrap_model() does not return (panics)"),
        Ok(v) => {
            println!("VIOLATION on the real code: SolvingResult::Unknown.unwrap_model() returned {:?}", v.map(|_| "Some(model)"));
            std::process::exit(1);
        }
    }
}
