//! F1 (C12): AAFramework::new_with_argument_set sizes its index lists by the number of live arguments
//! instead of the number of ids issued. Expected on a correct tree: prints OK and exits 0.
use crustabri::aa::{AAFramework, ArgumentSet};

fn main() {
    let r = std::panic::catch_unwind(|| {
        let mut set = ArgumentSet::new_with_labels(&["a", "b"]);
        set.remove_argument(&"a").unwrap();
        let mut af = AAFramework::new_with_argument_set(set);
        af.new_attack(&"b", &"b").unwrap();
        assert_eq!(1, af.n_attacks());
        let b = af.argument_set().get_argument(&"b").unwrap();
        assert_eq!(1, af.iter_attacks_to(b).count());
    });
    match r {
        Ok(()) => println!("OK: framework built from a set with a removed label accepts an attack on the surviving label"),
        Err(_) => {
            println!("DEFECT F1 reproduced: new_attack(b,b) panicked on a framework built from ArgumentSet [a(removed), b]");
            std::process::exit(1);
        }
    }
}
