//! F5 (C16 / C17): a truncated model -- a value line that never reaches its terminating 0, e.g. because the solver was
//! killed while printing -- is reported as a result. The "solver" is `echo`, through the public ExternalSatSolver.
use crustabri::sat::{ExternalSatSolver, Literal, SatSolver, SolvingResult};

fn main() {
    let mut s = ExternalSatSolver::new("sh".to_string(), vec!["-c".to_string(), "cat > /dev/null; printf 's SATISFIABLE\\nv 1\\n'".to_string()]);
    s.add_clause(vec![Literal::from(1isize), Literal::from(2isize)]);
    s.add_clause(vec![Literal::from(-2isize), Literal::from(3isize)]);
    let r = std::panic::catch_unwind(std::panic::AssertUnwindSafe(|| s.solve()));
    match r {
        Ok(SolvingResult::Satisfiable(a)) => {
            println!("reply `s SATISFIABLE / v 1` (no terminating 0) was reported as a model: {:?}", a);
            println!("DEFECT F5 reproduced: a truncated reply became a result");
            std::process::exit(1);
        }
        Ok(other) => println!("OK: the truncated reply is reported as {:?}", other),
        Err(_) => println!("OK: the truncated reply aborts"),
    }
}
