//! F6 (C07, complete semantics): the variant with certificate of a credulous query over a list of arguments assumes ALL the
//! listed arguments instead of one of them. a <-> b: {a} and {b} are complete extensions, so DC-CO over [a, b] is YES;
//! the variant without certificate says YES, the variant with certificate says NO.
use crustabri::aa::{AAFramework, ArgumentSet};
use crustabri::solvers::{CompleteSemanticsSolver, CredulousAcceptanceComputer};

fn main() {
    let set = ArgumentSet::new_with_labels(&["a", "b"]);
    let mut af = AAFramework::new_with_argument_set(set);
    af.new_attack(&"a", &"b").unwrap();
    af.new_attack(&"b", &"a").unwrap();
    let mut solver = CompleteSemanticsSolver::new(&af);
    let without = solver.are_credulously_accepted(&[&"a", &"b"]);
    let (with_cert, cert) = solver.are_credulously_accepted_with_certificate(&[&"a", &"b"]);
    println!("DC-CO([a, b]) = {} (without certificate) / {} (with certificate, certificate present: {})", without, with_cert, cert.is_some());
    if without != with_cert || !with_cert {
        println!("DEFECT F6 reproduced: the two variants disagree on a <-> b");
        std::process::exit(1);
    }
    println!("OK: both variants answer YES");
}
