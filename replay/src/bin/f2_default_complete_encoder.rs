//! F2 (C10): encodings::new_default_complete_constraints_encoder returns a conflict-freeness encoder.
//! On a -> b the complete extensions are exactly {a}; b must not be credulously accepted.
use crustabri::aa::{AAFramework, ArgumentSet};
use crustabri::encodings;
use crustabri::sat;
use crustabri::solvers::{CompleteSemanticsSolver, CredulousAcceptanceComputer};

fn main() {
    let set = ArgumentSet::new_with_labels(&["a", "b"]);
    let mut af = AAFramework::new_with_argument_set(set);
    af.new_attack(&"a", &"b").unwrap();
    let mut solver = CompleteSemanticsSolver::new_with_sat_solver_factory_and_constraints_encoder(
        &af,
        Box::new(|| sat::default_solver()),
        encodings::new_default_complete_constraints_encoder(),
    );
    let dc_b = solver.is_credulously_accepted(&"b");
    if dc_b {
        println!("DEFECT F2 reproduced: DC-CO(b) = YES on a -> b with the default complete encoder");
        std::process::exit(1);
    }
    println!("OK: DC-CO(b) = NO on a -> b with the default complete encoder");
}
